#include "run/json.h"
#include <cstdio>
#include <cstdlib>
#include <cstring>
#include <cmath>

namespace js {

Val &Val::set(const std::string &k, const Val &v) {
	t = OBJ;
	for (auto &p : o) if (p.first == k) { p.second = v; return *this; }
	o.push_back({k, v});
	return *this;
}

const Val *Val::get(const std::string &k) const {
	for (auto &p : o) if (p.first == k) return &p.second;
	return nullptr;
}

int64_t Val::geti(const std::string &k, int64_t dflt) const {
	const Val *v = get(k);
	if (!v) return dflt;
	if (v->t == INT) return v->i;
	if (v->t == DBL) return (int64_t)v->d;
	if (v->t == BOOL) return v->b;
	return dflt;
}

std::string Val::gets(const std::string &k, const std::string &dflt) const {
	const Val *v = get(k);
	return v && v->t == STR ? v->s : dflt;
}

static void esc(const std::string &s, std::string &out) {
	out.push_back('"');
	for (unsigned char c : s) {
		switch (c) {
			case '"': out += "\\\""; break;
			case '\\': out += "\\\\"; break;
			case '\n': out += "\\n"; break;
			case '\r': out += "\\r"; break;
			case '\t': out += "\\t"; break;
			default:
				if (c < 0x20 || c >= 0x7f) { char b[8]; snprintf(b, sizeof b, "\\u%04x", c); out += b; }
				else out.push_back((char)c);
		}
	}
	out.push_back('"');
}

std::string Val::dump(int indent, int level) const {
	std::string out;
	auto nl = [&](int l) { if (indent) { out.push_back('\n'); out.append((size_t)(l * indent), ' '); } };
	switch (t) {
		case NUL: out = "null"; break;
		case BOOL: out = b ? "true" : "false"; break;
		case INT: out = std::to_string(i); break;
		case DBL: { char buf[64]; if (std::isfinite(d)) snprintf(buf, sizeof buf, "%.6g", d); else snprintf(buf, sizeof buf, "0"); out = buf; if (out.find_first_of(".e") == std::string::npos) out += ".0"; break; }
		case STR: esc(s, out); break;
		case ARR: {
			out = "[";
			bool simple = true;
			for (auto &v : a) if (v.t == ARR || v.t == OBJ) simple = false;
			for (size_t k = 0; k < a.size(); k++) {
				if (k) out += simple ? ", " : ",";
				if (!simple) nl(level + 1);
				out += a[k].dump(indent, level + 1);
			}
			if (!simple && !a.empty()) nl(level);
			out += "]";
			break;
		}
		case OBJ: {
			out = "{";
			for (size_t k = 0; k < o.size(); k++) {
				if (k) out += ",";
				nl(level + 1);
				esc(o[k].first, out);
				out += indent ? ": " : ":";
				out += o[k].second.dump(indent, level + 1);
			}
			if (!o.empty()) nl(level);
			out += "}";
			break;
		}
	}
	return out;
}

struct P {
	const std::string &s; size_t i = 0; std::string err;
	explicit P(const std::string &t) : s(t) {}
	void ws() { while (i < s.size() && (s[i] == ' ' || s[i] == '\n' || s[i] == '\t' || s[i] == '\r')) i++; }
	bool val(Val &v) {
		ws();
		if (i >= s.size()) return fail("eof");
		char c = s[i];
		if (c == '{') {
			i++; v = Val::obj(); ws();
			if (i < s.size() && s[i] == '}') { i++; return true; }
			for (;;) {
				ws(); Val k;
				if (!str(k.s)) return false;
				ws(); if (i >= s.size() || s[i] != ':') return fail(":"); i++;
				Val x; if (!val(x)) return false;
				v.o.push_back({k.s, x});
				ws(); if (i < s.size() && s[i] == ',') { i++; continue; }
				if (i < s.size() && s[i] == '}') { i++; return true; }
				return fail("} or ,");
			}
		}
		if (c == '[') {
			i++; v = Val::arr(); ws();
			if (i < s.size() && s[i] == ']') { i++; return true; }
			for (;;) {
				Val x; if (!val(x)) return false;
				v.a.push_back(x);
				ws(); if (i < s.size() && s[i] == ',') { i++; continue; }
				if (i < s.size() && s[i] == ']') { i++; return true; }
				return fail("] or ,");
			}
		}
		if (c == '"') { v.t = Val::STR; return str(v.s); }
		if (!s.compare(i, 4, "true")) { i += 4; v = Val(true); return true; }
		if (!s.compare(i, 5, "false")) { i += 5; v = Val(false); return true; }
		if (!s.compare(i, 4, "null")) { i += 4; v = Val(); return true; }
		size_t j = i; bool dbl = false;
		if (j < s.size() && (s[j] == '-' || s[j] == '+')) j++;
		while (j < s.size() && (isdigit((unsigned char)s[j]) || s[j] == '.' || s[j] == 'e' || s[j] == 'E' || s[j] == '-' || s[j] == '+')) { if (s[j] == '.' || s[j] == 'e' || s[j] == 'E') dbl = true; j++; }
		if (j == i) return fail("value");
		std::string n = s.substr(i, j - i);
		i = j;
		if (dbl) v = Val(strtod(n.c_str(), nullptr));
		else if (n[0] == '-') v = Val((int64_t)strtoll(n.c_str(), nullptr, 10));
		else v = Val((uint64_t)strtoull(n.c_str(), nullptr, 10));
		return true;
	}
	bool str(std::string &out) {
		if (i >= s.size() || s[i] != '"') return fail("string");
		i++; out.clear();
		while (i < s.size() && s[i] != '"') {
			if (s[i] == '\\' && i + 1 < s.size()) {
				char e = s[i + 1]; i += 2;
				switch (e) {
					case 'n': out.push_back('\n'); break;
					case 't': out.push_back('\t'); break;
					case 'r': out.push_back('\r'); break;
					case 'u': { unsigned cp = (unsigned)strtoul(s.substr(i, 4).c_str(), nullptr, 16); i += 4; out.push_back((char)(cp & 0xff)); break; }
					default: out.push_back(e);
				}
			} else out.push_back(s[i++]);
		}
		if (i >= s.size()) return fail("unterminated string");
		i++;
		return true;
	}
	bool fail(const char *w) { err = std::string("expected ") + w + " at " + std::to_string(i); return false; }
};

bool parse(const std::string &text, Val &out, std::string *err) {
	P p(text);
	bool ok = p.val(out);
	if (!ok && err) *err = p.err;
	return ok;
}

bool read_file(const std::string &path, std::string &out) {
	FILE *f = fopen(path.c_str(), "rb");
	if (!f) return false;
	out.clear();
	char buf[65536]; size_t n;
	while ((n = fread(buf, 1, sizeof buf, f)) > 0) out.append(buf, n);
	fclose(f);
	return true;
}

bool write_file(const std::string &path, const std::string &data) {
	std::string tmp = path + ".tmp";
	FILE *f = fopen(tmp.c_str(), "wb");
	if (!f) return false;
	fwrite(data.data(), 1, data.size(), f);
	fclose(f);
	return rename(tmp.c_str(), path.c_str()) == 0;
}

} // namespace js
