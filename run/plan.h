// Plans (engine, config, ops), engines, run results.
#pragma once
#include "run/json.h"
#include "sim/kernel.h"
#include <string>
#include <vector>
#include <map>

namespace run {

struct Op {
	std::string k;              // kind, e.g. "ADD", "RUN", "DELIVER"
	std::vector<int64_t> a;     // arguments; selectors are interpreted modulo what is enabled
	int64_t arg(size_t i, int64_t d = 0) const { return i < a.size() ? a[i] : d; }
	std::string str() const;
};

struct Plan {
	std::string engine;
	std::string property;       // the property this plan was generated for (selects focus / oracles)
	uint64_t seed = 0;
	std::map<std::string, int64_t> cfg;
	std::vector<Op> ops;
	int64_t c(const std::string &k, int64_t d = 0) const { auto it = cfg.find(k); return it == cfg.end() ? d : it->second; }
	js::Val to_json() const;
	static bool from_json(const js::Val &v, Plan &p);
	std::string brief(size_t max_ops = 40) const;
};

struct RunResult {
	uint64_t hash = 0;
	std::vector<sim::Violation> violations;
	std::map<std::string, uint64_t> counters;
	int64_t sim_ms = 0;
	bool inconclusive = false;
	std::string inconclusive_why;
	bool nontrivial = false;    // >= 1 fault fired while >= 1 request was in flight (engine-specific rule)
	uint64_t state_sig = 0;     // hash of the abstract states visited (for the distinct-states measure)
	std::vector<uint64_t> abstract_states;
	std::vector<std::string> log; // when tracing
};

struct Engine {
	virtual ~Engine() {}
	virtual const char *name() const = 0;
	// tier: 0 quick, 1 thorough
	virtual Plan generate(uint64_t seed, const std::string &property, int tier) = 0;
	// engines that enumerate a space (C19) map the run index to a case; the default ignores the index
	virtual Plan generate_at(uint64_t index, uint64_t seed, const std::string &property, int tier) { (void)index; return generate(seed, property, tier); }
	virtual uint64_t planned_runs(int tier) { (void)tier; return 0; }
	virtual void extra_evidence(js::Val &coverage, int tier) { (void)coverage; (void)tier; }
	virtual RunResult execute(const Plan &p, bool trace) = 0;
	// neutral values used by the shrinker for config keys ("defaults"); keys not listed are left alone
	virtual std::map<std::string, int64_t> neutral_cfg() const { return {}; }
	virtual std::string nontrivial_rule() const { return ""; }
	// what one element of RunResult::abstract_states stands for (the "distinct states reached" measure of the evidence)
	virtual std::string state_measure() const { return "engine-specific abstract state after every op"; }
};

Engine *engine_by_name(const std::string &n);
std::vector<Engine *> &all_engines();
void register_engine(Engine *e);

} // namespace run
