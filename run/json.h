// Minimal JSON value (objects, arrays, strings, integers, doubles, bools, null) — enough for replay/evidence files.
#pragma once
#include <cstdint>
#include <string>
#include <vector>
#include <map>

namespace js {

struct Val {
	enum T { NUL, BOOL, INT, DBL, STR, ARR, OBJ } t = NUL;
	bool b = false;
	int64_t i = 0;
	double d = 0;
	std::string s;
	std::vector<Val> a;
	std::vector<std::pair<std::string, Val>> o; // insertion ordered

	Val() {}
	Val(bool v) : t(BOOL), b(v) {}
	Val(int v) : t(INT), i(v) {}
	Val(int64_t v) : t(INT), i(v) {}
	Val(uint64_t v) : t(INT), i((int64_t)v) {}
	Val(double v) : t(DBL), d(v) {}
	Val(const char *v) : t(STR), s(v) {}
	Val(const std::string &v) : t(STR), s(v) {}
	static Val arr() { Val v; v.t = ARR; return v; }
	static Val obj() { Val v; v.t = OBJ; return v; }
	Val &set(const std::string &k, const Val &v);
	Val &push(const Val &v) { t = ARR; a.push_back(v); return *this; }
	const Val *get(const std::string &k) const;
	int64_t geti(const std::string &k, int64_t d = 0) const;
	std::string gets(const std::string &k, const std::string &d = "") const;
	std::string dump(int indent = 0, int level = 0) const;
};

bool parse(const std::string &text, Val &out, std::string *err = nullptr);
bool read_file(const std::string &path, std::string &out);
bool write_file(const std::string &path, const std::string &data);

} // namespace js
