#include <cstdio>
int main(int argc, char **argv) { (void)argc; (void)argv; printf("ksisim skeleton\n"); return 0; }
