#include "run/runner.h"
#include <cstdio>
#include <cstring>
#include <cstdlib>

extern "C" __attribute__((used)) const char *__asan_default_options() { return "exitcode=77:detect_leaks=0:abort_on_error=0:allocator_may_return_null=1"; }
extern "C" __attribute__((used)) const char *__ubsan_default_options() { return "halt_on_error=1:exitcode=77:print_stacktrace=1"; }

namespace eng { int alloc_triage(); }
static int usage() {
	fprintf(stderr, "usage: ksisim check <property> quick|thorough | replay <file> | run-one <engine> <property> <seed> [tier] [--trace] | selftest [what]\n");
	return 2;
}

int main(int argc, char **argv) {
	setvbuf(stdout, nullptr, _IOLBF, 0);
	if (argc < 2) return usage();
	std::string cmd = argv[1];
	if (cmd == "check" && argc >= 4) return run::cmd_check(argv[2], argv[3]);
	if (cmd == "replay" && argc >= 3) return run::cmd_replay(argv[2]);
	if (cmd == "run-one" && argc >= 5) {
		bool trace = false; int tier = 0;
		for (int i = 5; i < argc; i++) { if (!strcmp(argv[i], "--trace")) trace = true; else tier = atoi(argv[i]); }
		return run::cmd_run_one(argv[2], argv[3], strtoull(argv[4], nullptr, 0), tier, trace);
	}
	if (cmd == "find" && argc >= 7) return run::cmd_find(argv[2], argv[3], argv[4], argv[5], strtoull(argv[6], nullptr, 0));
	if (cmd == "run-at" && argc >= 5) return run::cmd_run_at(argv[2], argv[3], strtoull(argv[4], nullptr, 0));
	if (cmd == "alloc-triage") return eng::alloc_triage();
	if (cmd == "selftest") return run::cmd_selftest(argc >= 3 ? argv[2] : "all");
	return usage();
}
