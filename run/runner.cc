#include <csignal>
#include "run/runner.h"
#include "sim/simnet.h"
#include <cstdio>
#include <cstdlib>
#include <cstring>
#include <chrono>
#include <set>
#include <algorithm>
#include <unistd.h>
#include <sys/wait.h>
#include <sys/stat.h>
#include <fcntl.h>

namespace run {

static double now_s() {
	using namespace std::chrono;
	return duration<double>(steady_clock::now().time_since_epoch()).count();
}

std::string verif_dir() {
	const char *d = getenv("VERIF_DIR");
	return d ? d : "/verif";
}

static uint64_t str_hash(const std::string &s) {
	uint64_t h = 0xcbf29ce484222325ULL;
	for (unsigned char c : s) { h ^= c; h *= 0x100000001b3ULL; }
	return h;
}

static uint64_t run_seed(uint64_t base, const Job &j, uint64_t i) {
	return sim::mix(sim::mix(base, str_hash(j.engine + "/" + j.property)), i);
}

// ---------------------------------------------------------------------------------------------------------
// check specifications

static std::vector<CheckSpec> &specs() {
	static std::vector<CheckSpec> s;
	if (!s.empty()) return s;
	auto add = [&](const char *prop, const char *level, std::vector<Job> jobs, int qw = 75, int tw = 1500) {
		CheckSpec c; c.property = prop; c.level = level; c.jobs = jobs; c.quick_wall_s = qw; c.thorough_wall_s = tw; s.push_back(c);
	};
	add("C13", "exploration", {{"async", "C13", 24000, 1500000}});
	add("C14", "exploration", {{"async", "C14", 16000, 1000000}, {"world", "C14", 4000, 200000}});
	add("C06", "exploration", {{"async", "C06", 12000, 600000}, {"world", "C06", 500, 40000}});
	add("C15", "exploration", {{"ha", "C15", 12000, 800000}});
	add("C07", "exploration", {{"world", "C07", 12000, 600000}, {"async", "C07", 8000, 300000}});
	add("C08", "exploration", {{"world", "C08", 10000, 500000}, {"async", "C08", 6000, 250000}});
	add("C04", "exploration", {{"trust", "C04", 6000, 300000}});
	add("C11", "exploration", {{"history", "C11", 6000, 300000}, {"trust", "C11", 1500, 60000}});
	add("C16", "exploration", {{"history", "C16", 6000, 300000}});
	add("C19", "fault_enumeration", {{"alloc", "C19", 0, 0}}, 420, 2400);
	return s;
}

const CheckSpec *spec_for(const std::string &property) {
	for (auto &c : specs()) if (c.property == property) return &c;
	return nullptr;
}

std::vector<std::string> all_check_properties() {
	std::vector<std::string> v;
	for (auto &c : specs()) v.push_back(c.property);
	return v;
}

// ---------------------------------------------------------------------------------------------------------
// isolated execution

static std::string ser_viol(const sim::Violation &v) {
	auto clean = [](std::string s) { for (auto &c : s) if (c == '\n' || c == '|') c = ' '; return s; };
	return clean(v.property) + "|" + clean(v.rule) + "|" + clean(v.key) + "|" + clean(v.detail);
}

static bool de_viol(const std::string &line, sim::Violation &v) {
	size_t a = line.find('|'), b = line.find('|', a + 1), c = line.find('|', b + 1);
	if (a == std::string::npos || b == std::string::npos || c == std::string::npos) return false;
	v.property = line.substr(0, a); v.rule = line.substr(a + 1, b - a - 1); v.key = line.substr(b + 1, c - b - 1); v.detail = line.substr(c + 1);
	return true;
}

// wall-clock watchdog per simulated run: the simulator bounds every loop that makes system calls (spin oracle, syscall cap), but
// not a loop inside libksi that calls nothing; SIGALRM then terminates the worker and the run is reported like a crash
static unsigned run_watchdog_s() {
	const char *s = getenv("VERIF_RUN_WATCHDOG_S");
	unsigned v = s ? (unsigned)atoi(s) : 0;
	return v ? v : 120;
}

Isolated run_isolated(const Plan &p, bool trace) {
	Isolated r;
	Engine *e = engine_by_name(p.engine);
	if (!e) { r.crashed = true; return r; }
	std::string dir = verif_dir() + "/build/work";
	mkdir((verif_dir() + "/build").c_str(), 0755);
	mkdir(dir.c_str(), 0755);
	char outp[256], errp[256];
	snprintf(outp, sizeof outp, "%s/iso-%d.out", dir.c_str(), (int)getpid());
	snprintf(errp, sizeof errp, "%s/iso-%d.err", dir.c_str(), (int)getpid());
	fflush(stdout); fflush(stderr);
	pid_t pid = fork();
	if (pid == 0) {
		int efd = open(errp, O_WRONLY | O_CREAT | O_TRUNC, 0644);
		if (efd >= 0) { dup2(efd, 2); }
		FILE *f = fopen(outp, "w");
		alarm(run_watchdog_s()); // a run that makes no simulated progress at all (a loop without system calls) ends as a crash
		RunResult rr = e->execute(p, trace);
		alarm(0);
		fprintf(f, "H %llx %d\n", (unsigned long long)rr.hash, rr.inconclusive ? 1 : 0);
		for (auto &l : rr.log) fprintf(f, "L %s\n", l.c_str());
		for (auto &v : rr.violations) fprintf(f, "V %s\n", ser_viol(v).c_str());
		fclose(f);
		_exit(0);
	}
	int st = 0;
	waitpid(pid, &st, 0);
	if (WIFSIGNALED(st)) { r.crashed = true; r.signal = WTERMSIG(st); }
	else if (WEXITSTATUS(st) != 0) { r.crashed = true; r.exit_code = WEXITSTATUS(st); }
	std::string txt;
	if (js::read_file(outp, txt)) {
		size_t pos = 0;
		while (pos < txt.size()) {
			size_t nl = txt.find('\n', pos);
			if (nl == std::string::npos) nl = txt.size();
			std::string line = txt.substr(pos, nl - pos);
			pos = nl + 1;
			if (line.size() > 2 && line[0] == 'H') { unsigned long long h; int inc; if (sscanf(line.c_str() + 2, "%llx %d", &h, &inc) == 2) { r.hash = h; r.inconclusive = inc; } }
			else if (line.size() > 2 && line[0] == 'V') { sim::Violation v; if (de_viol(line.substr(2), v)) r.violations.push_back(v); }
			else if (line.size() >= 2 && line[0] == 'L') r.log.push_back(line.substr(2));
		}
	}
	std::string err;
	if (js::read_file(errp, err)) r.stderr_head = err.substr(0, 4000);
	unlink(outp); unlink(errp);
	return r;
}

// ---------------------------------------------------------------------------------------------------------
// minimisation: ddmin over ops, then argument and config shrinking; one violation class per shrink

Plan minimise(const Plan &p0, Engine *e, const Pred &still_fails, int max_execs, int max_wall_s, uint64_t *execs_out) {
	Plan best = p0;
	uint64_t execs = 0;
	double t0 = now_s();
	auto budget = [&]() { return (int)execs < max_execs && now_s() - t0 < max_wall_s; };
	auto try_plan = [&](const Plan &c) { execs++; return still_fails(c); };
	// 1. drop chunks of ops
	size_t chunk = best.ops.size() / 2;
	while (chunk >= 1 && budget()) {
		bool any = false;
		for (size_t start = 0; start < best.ops.size() && budget();) {
			Plan c = best;
			size_t end = std::min(start + chunk, c.ops.size());
			c.ops.erase(c.ops.begin() + start, c.ops.begin() + end);
			if (try_plan(c)) { best = c; any = true; } else start += chunk;
		}
		if (!any || chunk == 1) { if (chunk == 1 && !any) break; }
		chunk = chunk > 1 ? chunk / 2 : (any ? 1 : 0);
		if (chunk == 0) break;
	}
	// 2. shrink arguments towards 0
	bool progress = true;
	int passes = 0;
	while (progress && budget() && passes++ < 3) {
		progress = false;
		for (size_t i = 0; i < best.ops.size() && budget(); i++) {
			for (size_t a = 0; a < best.ops[i].a.size() && budget(); a++) {
				int64_t v = best.ops[i].a[a];
				if (v == 0) continue;
				for (int64_t cand : {(int64_t)0, v / 2, v - 1}) {
					if (cand == v) continue;
					Plan c = best; c.ops[i].a[a] = cand;
					if (try_plan(c)) { best = c; progress = true; break; }
				}
			}
		}
	}
	// 3. config towards neutral values
	auto neutral = e->neutral_cfg();
	for (auto &kv : neutral) {
		if (!budget()) break;
		auto it = best.cfg.find(kv.first);
		if (it == best.cfg.end() || it->second == kv.second) continue;
		Plan c = best; c.cfg[kv.first] = kv.second;
		if (try_plan(c)) best = c;
	}
	// 4. one more single-op pass (config changes may have made ops redundant)
	for (size_t i = 0; i < best.ops.size() && budget();) {
		Plan c = best; c.ops.erase(c.ops.begin() + i);
		if (try_plan(c)) best = c; else i++;
	}
	if (execs_out) *execs_out = execs;
	return best;
}

// ---------------------------------------------------------------------------------------------------------
// known findings

struct Known { std::string property, rule, key, status, what, commit; std::vector<std::string> key_any; };

static std::vector<Known> load_known() {
	std::vector<Known> v;
	std::string txt; js::Val j;
	if (!js::read_file(verif_dir() + "/known_findings.json", txt) || !js::parse(txt, j)) return v;
	if (const js::Val *f = j.get("findings")) for (auto &e : f->a) {
		Known k; k.property = e.gets("property"); k.rule = e.gets("rule"); k.key = e.gets("key"); k.status = e.gets("status"); k.what = e.gets("what"); k.commit = e.gets("commit");
		if (const js::Val *ka = e.get("key_contains_any")) for (auto &x : ka->a) k.key_any.push_back(x.s);
		v.push_back(k);
	}
	return v;
}

static const Known *match_known(const std::vector<Known> &ks, const sim::Violation &v) {
	for (auto &k : ks) if (k.status == "known" && (k.property == v.property || k.property == v.oracle_property) && k.rule == v.rule) {
		if (k.key == v.key) return &k;
		// a finding may name several call sites: the class of a run with several injected faults lists all of them
		for (auto &sub : k.key_any) if (!sub.empty() && v.key.find(sub) != std::string::npos) return &k;
	}
	return nullptr;
}

// ---------------------------------------------------------------------------------------------------------
// batch workers

struct WorkerOut {
	uint64_t runs = 0, inconclusive = 0, nontrivial = 0;
	int64_t sim_ms = 0;
	std::map<std::string, uint64_t> counters;
	std::set<uint64_t> hashes_nontrivial, hashes_all, states;
	struct V { uint64_t idx; sim::Violation v; };
	std::vector<V> viols;
	std::vector<uint64_t> crashed_at;
	std::vector<uint64_t> inconclusive_idx;
};

// VERIF_STOP_EARLY=1 (used by tools/check_seeded.sh only): the batch ends soon after the first violation that is not a known finding
static std::string stop_file() { return verif_dir() + "/build/work/stop-" + std::to_string((int)getppid()); }
static std::string stop_file_parent() { return verif_dir() + "/build/work/stop-" + std::to_string((int)getpid()); }
static bool stop_early() { static int v = -1; if (v < 0) v = getenv("VERIF_STOP_EARLY") ? 1 : 0; return v == 1; }

static void worker_main(int w, int W, const Job &job, int tier, uint64_t base, uint64_t first, uint64_t nruns, double deadline, const std::string &outpath) {
	FILE *f = fopen(outpath.c_str(), "w");
	if (!f) _exit(3);
	std::vector<Known> known_for_stop;
	if (stop_early()) known_for_stop = load_known();
	Engine *e = engine_by_name(job.engine);
	std::map<std::string, uint64_t> counters;
	std::set<uint64_t> states;
	uint64_t done = 0;
	for (uint64_t i = first; i < nruns; i += (uint64_t)W) {
		if (now_s() > deadline) break;
		if (stop_early() && access(stop_file().c_str(), F_OK) == 0) break;
		fprintf(f, "S %llu\n", (unsigned long long)i);
		fflush(f);
		Plan p = e->generate_at(i, run_seed(base, job, i), job.property, tier);
		alarm(run_watchdog_s());
		RunResult rr = e->execute(p, false);
		alarm(0);
		fprintf(f, "R %llu %llx %d %lld %d\n", (unsigned long long)i, (unsigned long long)rr.hash, rr.nontrivial ? 1 : 0, (long long)rr.sim_ms, rr.inconclusive ? 1 : 0);
		for (auto &v : rr.violations) fprintf(f, "V %llu %s\n", (unsigned long long)i, ser_viol(v).c_str());
		if (stop_early()) for (auto &v : rr.violations) if (!match_known(known_for_stop, v)) { FILE *sf = fopen(stop_file().c_str(), "w"); if (sf) fclose(sf); }
		for (auto &c : rr.counters) counters[c.first] += c.second;
		for (auto s : rr.abstract_states) states.insert(s);
		done++;
		if (done % 64 == 0) fflush(f);
	}
	for (auto &c : counters) fprintf(f, "C %s %llu\n", c.first.c_str(), (unsigned long long)c.second);
	for (auto s : states) fprintf(f, "T %llx\n", (unsigned long long)s);
	fprintf(f, "D %d\n", w);
	fclose(f);
	_exit(0);
}

static void parse_worker_file(const std::string &path, WorkerOut &o, bool &finished, uint64_t &last_started, bool &last_done) {
	std::string txt;
	finished = false; last_started = (uint64_t)-1; last_done = true;
	if (!js::read_file(path, txt)) return;
	size_t pos = 0;
	while (pos < txt.size()) {
		size_t nl = txt.find('\n', pos);
		if (nl == std::string::npos) break; // incomplete last line
		std::string line = txt.substr(pos, nl - pos);
		pos = nl + 1;
		if (line.size() < 2) continue;
		const char *s = line.c_str() + 2;
		switch (line[0]) {
			case 'S': last_started = strtoull(s, nullptr, 10); last_done = false; break;
			case 'R': {
				unsigned long long i, h; int nt, inc; long long ms;
				if (sscanf(s, "%llu %llx %d %lld %d", &i, &h, &nt, &ms, &inc) == 5) {
					o.runs++; o.sim_ms += ms;
					o.hashes_all.insert(h);
					if (nt) { o.nontrivial++; o.hashes_nontrivial.insert(h); }
					if (inc) { o.inconclusive++; o.inconclusive_idx.push_back(i); }
					if (i == last_started) last_done = true;
				}
				break;
			}
			case 'V': {
				char *end; uint64_t i = strtoull(s, &end, 10);
				sim::Violation v;
				if (*end == ' ' && de_viol(end + 1, v)) o.viols.push_back({i, v});
				break;
			}
			case 'C': { char name[256]; unsigned long long n; if (sscanf(s, "%255s %llu", name, &n) == 2) o.counters[name] += n; break; }
			case 'T': o.states.insert(strtoull(s, nullptr, 16)); break;
			case 'D': finished = true; break;
		}
	}
}

static void run_batch(const Job &job, int tier, uint64_t base, uint64_t nruns, double deadline, int W, WorkerOut &out) {
	std::string dir = verif_dir() + "/build/work";
	mkdir((verif_dir() + "/build").c_str(), 0755);
	mkdir(dir.c_str(), 0755);
	struct WS { pid_t pid; uint64_t first; int gen; std::string path; bool done; };
	std::vector<WS> ws((size_t)W);
	auto spawn = [&](int w) {
		WS &s = ws[(size_t)w];
		char buf[300];
		snprintf(buf, sizeof buf, "%s/w-%d-%d-%d.out", dir.c_str(), (int)getpid(), w, s.gen);
		s.path = buf;
		fflush(stdout); fflush(stderr);
		pid_t pid = fork();
		if (pid == 0) {
			int efd = open("/dev/null", O_WRONLY);
			if (efd >= 0) dup2(efd, 2);
			worker_main(w, W, job, tier, base, s.first, nruns, deadline, s.path);
		}
		s.pid = pid;
	};
	for (int w = 0; w < W; w++) { ws[(size_t)w] = {0, (uint64_t)w, 0, "", false}; spawn(w); }
	int live = W;
	while (live > 0) {
		int st = 0;
		pid_t pid = wait(&st);
		if (pid < 0) break;
		for (int w = 0; w < W; w++) {
			WS &s = ws[(size_t)w];
			if (s.pid != pid || s.done) continue;
			bool finished; uint64_t last; bool last_done;
			parse_worker_file(s.path, out, finished, last, last_done);
			unlink(s.path.c_str());
			if (finished) { s.done = true; live--; break; }
			// the worker died inside run `last` (sanitizer abort, crash): remember it and carry on after it
			if (last != (uint64_t)-1 && !last_done) {
				out.crashed_at.push_back(last);
				if (stop_early()) { FILE *sf = fopen(stop_file_parent().c_str(), "w"); if (sf) fclose(sf); }
				s.first = last + (uint64_t)W;
			} else if (last != (uint64_t)-1) s.first = last + (uint64_t)W;
			else { s.done = true; live--; break; }
			s.gen++;
			if (s.gen > 50 || now_s() > deadline) { s.done = true; live--; break; }
			spawn(w);
			break;
		}
	}
}

// ---------------------------------------------------------------------------------------------------------
// violation confirmation, minimisation, replay files

// one violation class = property + rule + key: minimisation must not drift from an unknown violation into a known finding of the same rule
static bool same_class(const sim::Violation &a, const sim::Violation &b) { return a.property == b.property && a.rule == b.rule && a.key == b.key; }

static js::Val replay_json(const Plan &p, const sim::Violation &v, uint64_t hash, const std::vector<std::string> &log, bool crash, const std::string &crash_text) {
	js::Val j = js::Val::obj();
	j.set("property", v.property);
	j.set("rule", v.rule);
	j.set("key", v.key);
	j.set("detail", v.detail);
	j.set("engine", p.engine);
	j.set("seed", js::Val((uint64_t)p.seed));
	j.set("plan", p.to_json());
	js::Val ex = js::Val::obj();
	ex.set("rule", v.rule); ex.set("key", v.key);
	char hb[32]; snprintf(hb, sizeof hb, "%016llx", (unsigned long long)hash);
	ex.set("event_log_hash", std::string(hb));
	ex.set("crash", crash);
	j.set("expected", ex);
	if (crash) j.set("sanitizer_report_head", crash_text);
	js::Val lg = js::Val::arr();
	size_t from = log.size() > 400 ? log.size() - 400 : 0;
	for (size_t i = from; i < log.size(); i++) lg.push(js::Val(log[i]));
	j.set("trace_tail", lg);
	return j;
}

int cmd_replay(const std::string &path) {
	std::string txt; js::Val j;
	if (!js::read_file(path, txt) || !js::parse(txt, j)) { fprintf(stderr, "cannot read %s\n", path.c_str()); return 2; }
	Plan p;
	const js::Val *pj = j.get("plan");
	if (!pj || !Plan::from_json(*pj, p)) { fprintf(stderr, "no plan in %s\n", path.c_str()); return 2; }
	Engine *e = engine_by_name(p.engine);
	if (!e) { fprintf(stderr, "unknown engine %s\n", p.engine.c_str()); return 2; }
	const js::Val *ex = j.get("expected");
	std::string erule = ex ? ex->gets("rule") : "", ehash = ex ? ex->gets("event_log_hash") : "";
	bool ecrash = ex && ex->geti("crash");
	std::string eprop = j.gets("property");
	if (ecrash) {
		Isolated r = run_isolated(p);
		printf("REPLAY property=%s rule=%s crashed=%d exit=%d signal=%d\n", eprop.c_str(), erule.c_str(), r.crashed, r.exit_code, r.signal);
		if (r.crashed) { printf("%s\n", r.stderr_head.substr(0, 1500).c_str()); printf("REPRODUCED\n"); return 1; }
		printf("NOT REPRODUCED\n");
		return 0;
	}
	RunResult rr = e->execute(p, getenv("VERIF_TRACE") != nullptr);
	if (getenv("VERIF_TRACE")) for (auto &l : rr.log) printf("%s\n", l.c_str());
	char hb[32]; snprintf(hb, sizeof hb, "%016llx", (unsigned long long)rr.hash);
	bool same = false;
	for (auto &v : rr.violations) {
		printf("REPLAY property=%s rule=%s key=%s hash=%s : %s\n", v.property.c_str(), v.rule.c_str(), v.key.c_str(), hb, v.detail.c_str());
		if (v.property == eprop && v.rule == erule) same = true;
	}
	if (rr.violations.empty()) printf("REPLAY no violation hash=%s\n", hb);
	if (same && ehash == hb) { printf("REPRODUCED\n"); return 1; }
	if (same) { printf("REPRODUCED-WITH-DIFFERENT-HASH expected=%s\n", ehash.c_str()); return 3; }
	printf("NOT REPRODUCED\n");
	return 0;
}

int cmd_run_one(const std::string &engine, const std::string &property, uint64_t seed, int tier, bool trace) {
	Engine *e = engine_by_name(engine);
	if (!e) { fprintf(stderr, "unknown engine\n"); return 2; }
	Plan p = e->generate(seed, property, tier);
	printf("PLAN %s\n", p.brief(200).c_str());
	RunResult rr = e->execute(p, trace);
	for (auto &l : rr.log) printf("%s\n", l.c_str());
	printf("hash=%016llx sim_ms=%lld nontrivial=%d inconclusive=%d(%s)\n", (unsigned long long)rr.hash, (long long)rr.sim_ms, rr.nontrivial, rr.inconclusive, rr.inconclusive_why.c_str());
	for (auto &c : rr.counters) printf("  %s=%llu\n", c.first.c_str(), (unsigned long long)c.second);
	for (auto &v : rr.violations) printf("VIOL %s/%s [%s] %s\n", v.property.c_str(), v.rule.c_str(), v.key.c_str(), v.detail.c_str());
	return rr.violations.empty() ? 0 : 1;
}

int cmd_run_at(const std::string &engine, const std::string &property, uint64_t index) {
	Engine *e = engine_by_name(engine);
	if (!e) return 2;
	Job job{engine, property, 0, 0};
	uint64_t base = 1;
	if (const char *s = getenv("VERIF_SEED")) base = strtoull(s, nullptr, 0);
	int tier = 0;
	if (const char *t = getenv("VERIF_TIER")) tier = !strcmp(t, "thorough") ? 1 : 0;
	Plan p = e->generate_at(index, run_seed(base, job, index), property, tier);
	printf("PLAN %s\n", p.brief(200).c_str());
	RunResult rr = e->execute(p, true);
	for (auto &l : rr.log) printf("%s\n", l.c_str());
	for (auto &v : rr.violations) printf("VIOL %s/%s [%s] %s\n", v.property.c_str(), v.rule.c_str(), v.key.c_str(), v.detail.c_str());
	return rr.violations.empty() ? 0 : 1;
}

struct Outcome { int exit_code = 0; int violations = 0, known = 0; std::vector<std::string> lines; };

static void handle_violation(const Job &job, int tier, uint64_t base, uint64_t idx, const sim::Violation &v0, const std::vector<Known> &known, Outcome &oc, bool crash) {
	Engine *e = engine_by_name(job.engine);
	Plan p = e->generate_at(idx, run_seed(base, job, idx), job.property, tier);
	sim::Violation v = v0;
	std::string crash_text;
	uint64_t hash1 = 0;
	if (crash) {
		Isolated a = run_isolated(p);
		if (!a.crashed) { printf("HARNESS: run %llu crashed in the batch but not when re-executed\n", (unsigned long long)idx); oc.exit_code = std::max(oc.exit_code, 2); return; }
		crash_text = a.stderr_head;
		v.property = job.property; v.rule = "sanitizer-or-crash";
		// key: first frame of the report that lies in libksi or the kind of error
		std::string key = a.signal == SIGALRM ? "hang" : "crash";
		size_t k = crash_text.find("ERROR: AddressSanitizer: ");
		if (k != std::string::npos) { size_t e2 = crash_text.find_first_of(" \n", k + 25); key = crash_text.substr(k + 25, e2 - (k + 25)); }
		else if ((k = crash_text.find("runtime error: ")) != std::string::npos) { size_t e2 = crash_text.find('\n', k); key = "ubsan:" + crash_text.substr(k + 15, std::min<size_t>(60, e2 - (k + 15))); }
		size_t fpos = crash_text.find("/repo/src/ksi/");
		if (fpos != std::string::npos) { size_t e2 = crash_text.find_first_of(" \n)", fpos); std::string loc = crash_text.substr(fpos + 14, e2 - (fpos + 14)); size_t colon = loc.find(':'); key += "@" + loc.substr(0, colon); }
		v.key = key;
		v.detail = a.signal == SIGALRM ? "the run made no progress for the watchdog time (a loop without system calls); the process was terminated" : "process aborted while executing the plan (sanitizer report or crash)";
	} else {
		Isolated r1 = run_isolated(p), r2 = run_isolated(p);
		if (r1.crashed || r2.crashed) { handle_violation(job, tier, base, idx, v0, known, oc, true); return; }
		bool has1 = false, has2 = false;
		for (auto &x : r1.violations) if (same_class(x, v)) { has1 = true; v = x; }
		for (auto &x : r2.violations) if (same_class(x, v)) has2 = true;
		if (!has1 || !has2 || r1.hash != r2.hash) {
			printf("HARNESS: violation %s/%s of run %llu does not reproduce deterministically (has1=%d has2=%d hash %llx vs %llx)\n", v.property.c_str(), v.rule.c_str(), (unsigned long long)idx, has1, has2, (unsigned long long)r1.hash, (unsigned long long)r2.hash);
			oc.exit_code = std::max(oc.exit_code, 2);
			return;
		}
		hash1 = r1.hash;
	}
	if (const Known *k = match_known(known, v)) {
		char line[1024];
		snprintf(line, sizeof line, "KNOWN-FINDING: property=%s %s [%s/%s]", v.property.c_str(), k->what.c_str(), v.rule.c_str(), v.key.c_str());
		oc.lines.push_back(line);
		oc.known++;
		return;
	}
	// minimise
	uint64_t execs = 0;
	Plan m;
	if (crash) m = minimise(p, e, [&](const Plan &c) { return run_isolated(c).crashed; }, 400, 120, &execs);
	else m = minimise(p, e, [&](const Plan &c) { Isolated r = run_isolated(c); for (auto &x : r.violations) if (same_class(x, v)) return true; return false; }, 4000, 90, &execs);
	std::vector<std::string> log;
	uint64_t mh = 0;
	sim::Violation mv = v;
	if (!crash) {
		Isolated r = run_isolated(m, true);
		log = r.log; mh = r.hash;
		for (auto &x : r.violations) if (same_class(x, v)) { mv = x; break; }
	}
	char name[512];
	std::string safe_rule = mv.rule;
	for (auto &c : safe_rule) if (!isalnum((unsigned char)c) && c != '-') c = '_';
	snprintf(name, sizeof name, "%s/replays/%s-%s-%08llx.json", verif_dir().c_str(), mv.property.c_str(), safe_rule.c_str(), (unsigned long long)((crash ? str_hash(m.to_json().dump()) : mh) & 0xffffffffULL));
	mkdir((verif_dir() + "/replays").c_str(), 0755);
	js::write_file(name, replay_json(m, mv, mh, log, crash, crash_text.substr(0, 3000)).dump(1));
	// fresh-process replay
	std::string self = verif_dir() + "/build/asan/ksisim";
	const char *selfenv = getenv("KSISIM_SELF");
	if (selfenv) self = selfenv;
	std::string cmd = self + " replay " + name + " > /dev/null 2>&1";
	int rc = system(cmd.c_str());
	int code = WIFEXITED(rc) ? WEXITSTATUS(rc) : -1;
	if (code != 1) {
		printf("HARNESS: fresh-process replay of %s did not reproduce (exit %d)\n", name, code);
		oc.exit_code = std::max(oc.exit_code, 2);
		return;
	}
	char line[2048];
	snprintf(line, sizeof line, "VIOLATION property=%s replay=%s", mv.property.c_str(), name);
	oc.lines.push_back(line);
	snprintf(line, sizeof line, "  rule=%s key=%s seed_index=%llu ops=%zu (from %zu, %llu re-runs) : %s", mv.rule.c_str(), mv.key.c_str(), (unsigned long long)idx, m.ops.size(), p.ops.size(), (unsigned long long)execs, mv.detail.c_str());
	oc.lines.push_back(line);
	oc.violations++;
	oc.exit_code = std::max(oc.exit_code, 1);
}


// scan seeds until a violation whose rule/key contain the given substrings shows up; minimise it and write the replay
int cmd_find(const std::string &engine, const std::string &property, const std::string &rule, const std::string &key, uint64_t nseeds) {
	Engine *e = engine_by_name(engine);
	if (!e) return 2;
	Job job{engine, property, 0, 0};
	uint64_t base = 1;
	if (const char *s = getenv("VERIF_SEED")) base = strtoull(s, nullptr, 0);
	std::vector<Known> none;
	bool iso = getenv("FIND_ISOLATED") != nullptr;
	uint64_t from = getenv("FIND_FROM") ? strtoull(getenv("FIND_FROM"), nullptr, 0) : 0;
	for (uint64_t i = from; i < from + nseeds; i++) {
		Plan p = e->generate_at(i, run_seed(base, job, i), property, 0);
		std::vector<sim::Violation> viols;
		if (iso) {
			Isolated r = run_isolated(p);
			if (r.crashed && rule == "crash") {
				Outcome oc; sim::Violation v; v.property = property;
				handle_violation(job, 0, base, i, v, none, oc, true);
				for (auto &l : oc.lines) printf("%s\n", l.c_str());
				return oc.exit_code;
			}
			viols = r.violations;
		} else viols = e->execute(p, false).violations;
		for (auto &v : viols) {
			if (v.rule.find(rule) == std::string::npos || v.key.find(key) == std::string::npos) continue;
			Outcome oc;
			handle_violation(job, 0, base, i, v, none, oc, false);
			for (auto &l : oc.lines) printf("%s\n", l.c_str());
			return oc.exit_code;
		}
	}
	printf("not found in %llu seeds\n", (unsigned long long)nseeds);
	return 0;
}

int cmd_check(const std::string &property, const std::string &tier_s) {
	const CheckSpec *spec = spec_for(property);
	if (!spec) { fprintf(stderr, "no check for %s\n", property.c_str()); return 2; }
	// the tier named on the command line wins; VERIF_TIER only decides when the command names none
	int tier = tier_s == "thorough" ? 1 : 0;
	if (tier_s != "thorough" && tier_s != "quick") if (const char *t = getenv("VERIF_TIER")) tier = !strcmp(t, "thorough") ? 1 : 0;
	uint64_t base = 1;
	if (const char *s = getenv("VERIF_SEED")) base = strtoull(s, nullptr, 0);
	int W = 16;
	if (const char *s = getenv("VERIF_WORKERS")) W = std::max(1, atoi(s));
	double scale = 1.0;
	if (const char *s = getenv("VERIF_SCALE")) scale = atof(s);
	double t0 = now_s();
	// regression: the replays of defects that were repaired in /repo must stay silent (a fixed entry suppresses nothing)
	int regress_total = 0, regress_back = 0;
	std::vector<std::string> regress_lines;
	{
		std::string txt; js::Val kj;
		if (js::read_file(verif_dir() + "/known_findings.json", txt) && js::parse(txt, kj)) if (const js::Val *f = kj.get("findings")) for (auto &e : f->a) {
			if (e.gets("status") != "fixed" || e.gets("replay").empty()) continue;
			std::string path = verif_dir() + "/" + e.gets("replay");
			std::string rt; js::Val rj; Plan rp;
			if (!js::read_file(path, rt) || !js::parse(rt, rj) || !rj.get("plan") || !Plan::from_json(*rj.get("plan"), rp)) continue;
			Engine *re = engine_by_name(rp.engine);
			if (!re) continue;
			regress_total++;
			bool back = false;
			const js::Val *ex = rj.get("expected");
			Isolated ir = run_isolated(rp);
			if (ex && ex->geti("crash")) back = ir.crashed;
			else { back = ir.crashed; for (auto &v : ir.violations) if (v.property == rj.gets("property") && v.rule == rj.gets("rule")) back = true; }
			if (back) { regress_back++; regress_lines.push_back("VIOLATION property=" + rj.gets("property") + " replay=" + path); regress_lines.push_back("  a defect that was repaired (" + e.gets("commit") + ") is back: " + e.gets("what")); }
		}
	}
	if (stop_early()) { mkdir((verif_dir() + "/build").c_str(), 0755); mkdir((verif_dir() + "/build/work").c_str(), 0755); unlink(stop_file_parent().c_str()); }
	int wall = tier ? spec->thorough_wall_s : spec->quick_wall_s;
	if (const char *s = getenv("VERIF_WALL_S")) wall = atoi(s);
	std::vector<Known> known = load_known();
	Outcome oc;
	WorkerOut total;
	js::Val samples = js::Val::arr();
	js::Val jobs_j = js::Val::arr();
	std::vector<Job> jobs;
	for (auto &j : spec->jobs) if (engine_by_name(j.engine)) jobs.push_back(j);
	if (jobs.empty()) { fprintf(stderr, "no engine available for %s\n", property.c_str()); return 2; }
	std::string rule_text;
	for (size_t ji = 0; ji < jobs.size(); ji++) {
		const Job &job = jobs[ji];
		if (stop_early() && access(stop_file_parent().c_str(), F_OK) == 0) break;
		uint64_t nruns = (uint64_t)((tier ? job.thorough_runs : job.quick_runs) * scale);
		if (engine_by_name(job.engine)->planned_runs(tier)) nruns = engine_by_name(job.engine)->planned_runs(tier);
		double share = (double)wall * (double)std::max<uint64_t>(1, tier ? job.thorough_runs : job.quick_runs);
		double sum = 0; for (auto &j : jobs) sum += (double)std::max<uint64_t>(1, tier ? j.thorough_runs : j.quick_runs);
		double deadline = now_s() + (sum > 0 ? share / sum : wall);
		WorkerOut wo;
		double jt0 = now_s();
		run_batch(job, tier, base, nruns, deadline, W, wo);
		double jt = now_s() - jt0;
		Engine *e = engine_by_name(job.engine);
		rule_text = e->nontrivial_rule();
		// samples: the first two plans of the job as executed
		for (uint64_t i = 0; i < 2 && i < nruns; i++) {
			Plan p = e->generate_at(i * 7919 % (nruns ? nruns : 1), run_seed(base, job, i * 7919 % (nruns ? nruns : 1)), job.property, tier);
			js::Val s = js::Val::obj();
			s.set("engine", job.engine); s.set("seed_index", js::Val(i)); s.set("plan", p.brief(60));
			samples.push(s);
		}
		js::Val jj = js::Val::obj();
		jj.set("engine", job.engine); jj.set("focus", job.property); jj.set("runs_planned", js::Val(nruns)); jj.set("runs_done", js::Val(wo.runs));
		jj.set("wall_s", jt); jj.set("runs_per_hour", js::Val((uint64_t)(jt > 0 ? wo.runs / jt * 3600 : 0)));
		jj.set("distinct_event_logs", js::Val((uint64_t)wo.hashes_all.size()));
		jj.set("crashed_runs", js::Val((uint64_t)wo.crashed_at.size()));
		jj.set("inconclusive_runs", js::Val(wo.inconclusive));
		jobs_j.push(jj);
		// violations: one representative (smallest run index) per class
		std::sort(wo.viols.begin(), wo.viols.end(), [](const WorkerOut::V &a, const WorkerOut::V &b) { return a.idx < b.idx; });
		if (getenv("VERIF_LIST_CLASSES")) {
			std::map<std::string, std::pair<uint64_t, uint64_t>> cls;
			for (auto &v : wo.viols) { auto &c = cls[v.v.property + "/" + v.v.rule + " [" + v.v.key + "]"]; if (!c.first) c.second = v.idx; c.first++; }
			for (auto &c : cls) printf("CLASS %6llu x first@%llu %s\n", (unsigned long long)c.second.first, (unsigned long long)c.second.second, c.first.c_str());
			printf("CRASHED %zu runs:", wo.crashed_at.size());
			for (size_t k = 0; k < wo.crashed_at.size() && k < 60; k++) printf(" %llu", (unsigned long long)wo.crashed_at[k]);
			printf("\n");
			continue;
		}
		std::vector<sim::Violation> seen;
		int handled = 0;
		for (auto &v : wo.viols) {
			bool dup = false;
			for (auto &s : seen) if (s.property == v.v.property && s.rule == v.v.rule && s.key == v.v.key) dup = true;
			if (dup) continue;
			seen.push_back(v.v);
			if (handled++ >= 6) break;
			handle_violation(job, tier, base, v.idx, v.v, known, oc, false);
		}
		std::sort(wo.crashed_at.begin(), wo.crashed_at.end());
		int ch = 0;
		for (uint64_t idx : wo.crashed_at) { if (ch++ >= 2) break; sim::Violation v; v.property = job.property; handle_violation(job, tier, base, idx, v, known, oc, true); }
		// merge
		total.runs += wo.runs; total.nontrivial += wo.nontrivial; total.inconclusive += wo.inconclusive; total.sim_ms += wo.sim_ms;
		for (auto &c : wo.counters) total.counters[c.first] += c.second;
		total.hashes_nontrivial.insert(wo.hashes_nontrivial.begin(), wo.hashes_nontrivial.end());
		total.hashes_all.insert(wo.hashes_all.begin(), wo.hashes_all.end());
		total.states.insert(wo.states.begin(), wo.states.end());
		total.viols.insert(total.viols.end(), wo.viols.begin(), wo.viols.end());
		total.crashed_at.insert(total.crashed_at.end(), wo.crashed_at.begin(), wo.crashed_at.end());
	}
	double wall_s = now_s() - t0;
	for (auto &l : regress_lines) printf("%s\n", l.c_str());
	if (regress_back) { oc.exit_code = std::max(oc.exit_code, 1); oc.violations += regress_back; }
	for (auto &l : oc.lines) printf("%s\n", l.c_str());
	// evidence
	js::Val ev = js::Val::obj();
	ev.set("property_id", property);
	ev.set("tier", tier ? "thorough" : "quick");
	ev.set("seed", js::Val((uint64_t)base));
	ev.set("level", spec->level);
	js::Val cov = js::Val::obj();
	cov.set("evaluations", js::Val(total.runs));
	cov.set("distinct_nontrivial", js::Val((uint64_t)total.hashes_nontrivial.size()));
	cov.set("rule", "one evaluation = one simulated run (seeded plan of config + ops, executed against the real libksi objects); " + rule_text);
	cov.set("samples", samples);
	cov.set("nontrivial_runs", js::Val(total.nontrivial));
	cov.set("distinct_event_logs", js::Val((uint64_t)total.hashes_all.size()));
	cov.set("distinct_abstract_states", js::Val((uint64_t)total.states.size()));
	{ std::string m; for (auto &j : jobs) if (Engine *e = engine_by_name(j.engine)) { if (!m.empty()) m += " | "; m += std::string(e->name()) + ": " + e->state_measure(); } cov.set("abstract_state_measure", m); }
	cov.set("simulated_seconds", js::Val((uint64_t)(total.sim_ms / 1000)));
	cov.set("runs_per_hour", js::Val((uint64_t)(wall_s > 0 ? total.runs / wall_s * 3600 : 0)));
	cov.set("inconclusive_runs", js::Val(total.inconclusive));
	cov.set("crashed_runs", js::Val((uint64_t)total.crashed_at.size()));
	cov.set("jobs", jobs_j);
	cov.set("regression_replays_of_fixed_defects", js::Val((int64_t)regress_total));
	cov.set("regression_replays_reproduced", js::Val((int64_t)regress_back));
	js::Val faults = js::Val::obj(), probes = js::Val::obj(), outcomes = js::Val::obj(), replies = js::Val::obj(), other = js::Val::obj();
	for (auto &c : total.counters) {
		if (c.first.compare(0, 6, "fault.") == 0) faults.set(c.first.substr(6), js::Val(c.second));
		else if (c.first.compare(0, 6, "probe.") == 0) probes.set(c.first.substr(6), js::Val(c.second));
		else if (c.first.compare(0, 8, "outcome.") == 0) outcomes.set(c.first.substr(8), js::Val(c.second));
		else if (c.first.compare(0, 6, "reply.") == 0) replies.set(c.first.substr(6), js::Val(c.second));
		else other.set(c.first, js::Val(c.second));
	}
	cov.set("faults_fired", faults);
	cov.set("reach_probes", probes);
	cov.set("outcomes", outcomes);
	cov.set("server_reply_behaviours", replies);
	cov.set("other_counters", other);
	js::Val comp = js::Val::obj();
	comp.set("real", "all of /repo/src/ksi/*.c for Linux/OpenSSL/curl, compiled from the working tree with ASan+UBSan; OpenSSL libcrypto");
	comp.set("simulated", "time(), getaddrinfo/socket/ioctl/setsockopt/connect/poll/recv/send/close (SimNet), the 16 libcurl entry points (SimCurl), malloc/calloc/free under KSI_malloc (SimAlloc)");
	comp.set("reference_model", "KSI aggregator / extender / calendar / PDU MAC (ref/*.cc), independent of libksi");
	cov.set("components", comp);
	cov.set("exhaustive", false);
	for (auto &j : jobs) engine_by_name(j.engine)->extra_evidence(cov, tier);
	ev.set("coverage", cov);
	js::Val as = js::Val::arr();
	as.push("SimNet/SimCurl show the SDK only behaviours the Linux TCP stack / libcurl can produce (DESIGN.md 2.2, 2.3)");
	as.push("the reference KSI world (own TLV codec, chain arithmetic, HMAC via OpenSSL) is correct; it is validated against the SDK's acceptance of honest replies in every run");
	as.push("sampling: a clean batch is evidence, not proof");
	ev.set("assumptions", as);
	ev.set("wall_s", wall_s);
	ev.set("violations", oc.violations);
	ev.set("known_findings_seen", oc.known);
	mkdir((verif_dir() + "/evidence").c_str(), 0755);
	js::write_file(verif_dir() + "/evidence/" + property + ".json", ev.dump(1));
	printf("check %s %s: %llu runs (%llu non-trivial, %zu distinct), %.1f s, %d violation(s), %d known finding(s), %llu inconclusive, %zu crashed\n", property.c_str(), tier ? "thorough" : "quick",
	       (unsigned long long)total.runs, (unsigned long long)total.nontrivial, total.hashes_nontrivial.size(), wall_s, oc.violations, oc.known, (unsigned long long)total.inconclusive, total.crashed_at.size());
	if (total.runs == 0) { printf("HARNESS: no run completed\n"); return 2; }
	return oc.exit_code;
}

} // namespace run
