#pragma once
#include "run/plan.h"
#include <functional>

namespace run {

struct Job {
	std::string engine;
	std::string property;   // focus handed to the generator
	uint64_t quick_runs;
	uint64_t thorough_runs;
};

struct CheckSpec {
	std::string property;
	std::string level;      // evidence level category
	std::vector<Job> jobs;
	int quick_wall_s = 75;
	int thorough_wall_s = 1500;
};

const CheckSpec *spec_for(const std::string &property);
std::vector<std::string> all_check_properties();

// isolated execution (fork): survives sanitizer aborts
struct Isolated {
	bool crashed = false;
	int exit_code = 0, signal = 0;
	std::string stderr_head;
	uint64_t hash = 0;
	std::vector<sim::Violation> violations;
	bool inconclusive = false;
	std::vector<std::string> log;
};
// executes the plan in a forked child: a sanitizer abort, crash or hang of libksi cannot take the checking process with it
Isolated run_isolated(const Plan &p, bool trace = false);

using Pred = std::function<bool(const Plan &)>;
Plan minimise(const Plan &p, Engine *e, const Pred &still_fails, int max_execs, int max_wall_s, uint64_t *execs_out);

int cmd_check(const std::string &property, const std::string &tier);
int cmd_replay(const std::string &path);
int cmd_run_one(const std::string &engine, const std::string &property, uint64_t seed, int tier, bool trace);
int cmd_selftest(const std::string &what);
int cmd_run_at(const std::string &engine, const std::string &property, uint64_t index);
int cmd_find(const std::string &engine, const std::string &property, const std::string &rule, const std::string &key, uint64_t nseeds);

std::string verif_dir();

} // namespace run
