#include "sim/simnet.h"
#include <algorithm>
#include <ctime>
#include <cstdlib>
#include <sys/wait.h>
#include <unistd.h>
#include "run/runner.h"
#include "eng/sdk.h"
#include "ref/world.h"
#include "sim/kernel.h"
#include <cstdio>

namespace run {

static int refmodel() {
	int bad = 0;
	KSI_CTX *ctx = sdk::new_ctx(0);
	for (int i = 0; i < 400; i++) {
		ref::World w;
		ref::ReplyMeta m;
		std::string hash = ref::imprint(1, "selftest" + std::to_string(i));
		uint64_t level = i % 5 == 4 ? (uint64_t)(i % 120) : (uint64_t)(i % 3);
		std::string sig = w.make_signature(hash, level, 1000 + i, i % 4 != 3, m);
		int res = 0;
		KSI_Signature *s = sdk::parse_sig(ctx, sig, &res);
		ref::SigView v; bool p = ref::parse_signature(sig, v);
		ref::SigFacts f = p ? ref::evaluate(v) : ref::SigFacts();
		if (!s || !p || !f.consistent) {
			bad++;
			if (bad < 6) {
				printf("refmodel: signature %d: sdk parse res=0x%x ref consistent=%d (%s)\n", i, res, f.consistent, f.why.c_str());
				for (auto &c : v.agg) { printf("  chain alg=%d links:", c.alg); for (auto &l : c.links) printf(" %c%d/lc%llu", l.left ? 'L' : 'R', l.kind, (unsigned long long)l.lc); printf("\n"); }
			}
		} else {
			std::string back = sdk::serialize(s);
			if (back != sig) { bad++; if (bad < 6) printf("refmodel: signature %d does not re-serialise identically\n", i); }
		}
		if (s) KSI_Signature_free(s);
	}
	KSI_CTX_free(ctx);
	// calendar: every chain to a publication time folds to that time's root, and derives its own aggregation time
	{
		ref::World w;
		std::vector<uint64_t> ts;
		for (int i = 0; i < 12; i++) { ref::ReplyMeta m; w.make_signature(ref::imprint(1, "c" + std::to_string(i)), 0, 77 + i, true, m); ts.push_back(m.agg_time); }
		for (uint64_t t : ts) for (uint64_t p = t; p <= w.head(); p += 1 + (p % 3)) {
			ref::CalChain c = w.cal.chain(t, p);
			uint64_t dt = 0;
			if (c.fold() != w.cal.root(p) || !c.derive_time(dt) || dt != t) { bad++; if (bad < 6) printf("refmodel: calendar chain(%llu,%llu) does not reproduce root / time\n", (unsigned long long)t, (unsigned long long)p); }
		}
	}
	printf("selftest refmodel: %s (%d problems)\n", bad ? "FAILED" : "ok", bad);
	return bad ? 1 : 0;
}

// every plan executed twice in this process must give the same event-log hash; one forked child per (engine, property)
static int determinism_pair(Engine *e, const char *prop, uint64_t n, uint64_t &runs) {
	int bad = 0;
	for (uint64_t i = 0; i < n; i++) {
		Plan p = e->generate(sim::mix(0xd37, i), prop, 0);
		RunResult a = e->execute(p, true), b = e->execute(p, true);
		runs++;
		if (a.hash != b.hash) {
			bad++;
			if (bad <= 3) {
				printf("determinism: engine %s prop %s seed-index %llu: %016llx vs %016llx\n", e->name(), prop, (unsigned long long)i, (unsigned long long)a.hash, (unsigned long long)b.hash);
				for (size_t k = 0; k < a.log.size() && k < b.log.size(); k++) if (a.log[k] != b.log[k]) { printf("  first difference at line %zu:\n   A %s\n   B %s\n", k, a.log[k].c_str(), b.log[k].c_str()); break; }
				if (a.log.size() != b.log.size()) printf("  log lengths %zu vs %zu\n", a.log.size(), b.log.size());
			}
		}
	}
	return bad;
}

static int determinism(uint64_t n) {
	static const struct { const char *engine, *prop; unsigned div = 1; } pairs[] = {
		{"async", "C13"}, {"async", "C14"}, {"async", "C06"}, {"async", "C07"}, {"async", "C08"}, {"trust", "C11", 4}, {"ha", "C15"}, {"world", "C07"}, {"world", "C08"}, {"world", "C06", 25}, {"world", "C14"},
		{"alloc", "C19"}, {"history", "C11"}, {"history", "C16"}, {"trust", "C04", 4}};
	std::vector<pid_t> kids;
	fflush(stdout);
	for (auto &pr : pairs) {
		pid_t pid = fork();
		if (pid == 0) {
			uint64_t runs = 0;
			Engine *e = engine_by_name(pr.engine);
			struct timespec t0, t1; clock_gettime(CLOCK_MONOTONIC, &t0);
			int bad = e ? determinism_pair(e, pr.prop, std::max<uint64_t>(4, n / pr.div), runs) : 1;
			clock_gettime(CLOCK_MONOTONIC, &t1);
			if (getenv("VERIF_TRACE")) printf("determinism %s/%s: %.1f s\n", pr.engine, pr.prop, (t1.tv_sec - t0.tv_sec) + (t1.tv_nsec - t0.tv_nsec) / 1e9);
			fflush(stdout);
			_exit(bad ? 1 : 0);
		}
		kids.push_back(pid);
	}
	int bad = 0;
	for (pid_t k : kids) { int st = 0; waitpid(k, &st, 0); if (!WIFEXITED(st) || WEXITSTATUS(st) != 0) bad++; }
	printf("selftest determinism: %s (%zu engine/property pairs x up to %llu plans run twice, %d pair(s) diverged or crashed)\n", bad ? "FAILED" : "ok", sizeof pairs / sizeof pairs[0], (unsigned long long)n, bad);
	return bad ? 1 : 0;
}

int cmd_selftest(const std::string &what) {
	int rc = 0;
	sim::K.reset(1600000000000LL);
	if (what == "all" || what == "refmodel") rc |= refmodel();
	if (what == "all" || what == "simnet") {
		std::string rep;
		bool ok = sim::selftest_simnet(rep);
		printf("selftest simnet-vs-loopback: %s\n%s", ok ? "ok" : "FAILED", rep.c_str());
		if (!ok) rc |= 1;
	}
	if (what == "all" || what == "determinism") rc |= determinism(what == "all" ? 100 : 1500);
	return rc ? 2 : 0;
}

} // namespace run
