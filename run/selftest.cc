#include "run/runner.h"
#include "eng/sdk.h"
#include "ref/world.h"
#include "sim/kernel.h"
#include <cstdio>

namespace run {

static int refmodel() {
	int bad = 0;
	KSI_CTX *ctx = sdk::new_ctx(0);
	for (int i = 0; i < 400; i++) {
		ref::World w;
		ref::ReplyMeta m;
		std::string hash = ref::imprint(1, "selftest" + std::to_string(i));
		uint64_t level = i % 5 == 4 ? (uint64_t)(i % 120) : (uint64_t)(i % 3);
		std::string sig = w.make_signature(hash, level, 1000 + i, i % 4 != 3, m);
		int res = 0;
		KSI_Signature *s = sdk::parse_sig(ctx, sig, &res);
		ref::SigView v; bool p = ref::parse_signature(sig, v);
		ref::SigFacts f = p ? ref::evaluate(v) : ref::SigFacts();
		if (!s || !p || !f.consistent) {
			bad++;
			if (bad < 6) {
				printf("refmodel: signature %d: sdk parse res=0x%x ref consistent=%d (%s)\n", i, res, f.consistent, f.why.c_str());
				for (auto &c : v.agg) { printf("  chain alg=%d links:", c.alg); for (auto &l : c.links) printf(" %c%d/lc%llu", l.left ? 'L' : 'R', l.kind, (unsigned long long)l.lc); printf("\n"); }
			}
		} else {
			std::string back = sdk::serialize(s);
			if (back != sig) { bad++; if (bad < 6) printf("refmodel: signature %d does not re-serialise identically\n", i); }
		}
		if (s) KSI_Signature_free(s);
	}
	KSI_CTX_free(ctx);
	// calendar: every chain to a publication time folds to that time's root, and derives its own aggregation time
	{
		ref::World w;
		std::vector<uint64_t> ts;
		for (int i = 0; i < 12; i++) { ref::ReplyMeta m; w.make_signature(ref::imprint(1, "c" + std::to_string(i)), 0, 77 + i, true, m); ts.push_back(m.agg_time); }
		for (uint64_t t : ts) for (uint64_t p = t; p <= w.head(); p += 1 + (p % 3)) {
			ref::CalChain c = w.cal.chain(t, p);
			uint64_t dt = 0;
			if (c.fold() != w.cal.root(p) || !c.derive_time(dt) || dt != t) { bad++; if (bad < 6) printf("refmodel: calendar chain(%llu,%llu) does not reproduce root / time\n", (unsigned long long)t, (unsigned long long)p); }
		}
	}
	printf("selftest refmodel: %s (%d problems)\n", bad ? "FAILED" : "ok", bad);
	return bad ? 1 : 0;
}

// every plan executed twice in this process must give the same event-log hash
static int determinism(uint64_t n) {
	int bad = 0;
	uint64_t runs = 0;
	for (auto *e : all_engines()) {
		for (const char *prop : {"C13", "C14", "C06", "C15", "C07", "C08", "C04", "C11", "C16"}) {
			for (uint64_t i = 0; i < n; i++) {
				Plan p = e->generate(sim::mix(0xd37, i), prop, 0);
				RunResult a = e->execute(p, true), b = e->execute(p, true);
				runs++;
				if (a.hash != b.hash) {
					bad++;
					if (bad <= 3) {
						RunResult &ta = a, &tb = b;
						printf("determinism: engine %s prop %s seed-index %llu: %016llx vs %016llx\n", e->name(), prop, (unsigned long long)i, (unsigned long long)a.hash, (unsigned long long)b.hash);
						for (size_t k = 0; k < ta.log.size() && k < tb.log.size(); k++) if (ta.log[k] != tb.log[k]) { printf("  first difference at line %zu:\n   A %s\n   B %s\n", k, ta.log[k].c_str(), tb.log[k].c_str()); break; }
						if (ta.log.size() != tb.log.size()) printf("  log lengths %zu vs %zu\n", ta.log.size(), tb.log.size());
					}
				}
			}
		}
	}
	printf("selftest determinism: %s (%llu plans run twice, %d diverged)\n", bad ? "FAILED" : "ok", (unsigned long long)runs, bad);
	return bad ? 1 : 0;
}

int cmd_selftest(const std::string &what) {
	int rc = 0;
	sim::K.reset(1600000000000LL);
	if (what == "all" || what == "refmodel") rc |= refmodel();
	if (what == "all" || what == "determinism") rc |= determinism(what == "all" ? 150 : 1500);
	return rc ? 2 : 0;
}

} // namespace run
