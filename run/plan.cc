#include "run/plan.h"
#include <sstream>

namespace run {

std::string Op::str() const {
	std::string s = k;
	for (auto v : a) { s += ' '; s += std::to_string(v); }
	return s;
}

js::Val Plan::to_json() const {
	js::Val v = js::Val::obj();
	v.set("engine", engine);
	v.set("property", property);
	v.set("seed", js::Val((uint64_t)seed));
	js::Val c = js::Val::obj();
	for (auto &p : cfg) c.set(p.first, js::Val((int64_t)p.second));
	v.set("config", c);
	js::Val o = js::Val::arr();
	for (auto &op : ops) o.push(js::Val(op.str()));
	v.set("ops", o);
	return v;
}

bool Plan::from_json(const js::Val &v, Plan &p) {
	p = Plan();
	p.engine = v.gets("engine");
	p.property = v.gets("property");
	p.seed = (uint64_t)v.geti("seed");
	if (const js::Val *c = v.get("config")) for (auto &kv : c->o) p.cfg[kv.first] = kv.second.t == js::Val::INT ? kv.second.i : (int64_t)kv.second.d;
	if (const js::Val *o = v.get("ops")) {
		for (auto &e : o->a) {
			std::istringstream is(e.s);
			Op op;
			is >> op.k;
			long long x;
			while (is >> x) op.a.push_back(x);
			if (!op.k.empty()) p.ops.push_back(op);
		}
	}
	return !p.engine.empty();
}

std::string Plan::brief(size_t max_ops) const {
	std::string s = engine + "{";
	bool first = true;
	for (auto &c : cfg) { if (!first) s += ","; first = false; s += c.first + "=" + std::to_string(c.second); }
	s += "} ";
	for (size_t i = 0; i < ops.size() && i < max_ops; i++) { if (i) s += "; "; s += ops[i].str(); }
	if (ops.size() > max_ops) s += "; ...(" + std::to_string(ops.size()) + " ops)";
	return s;
}

std::vector<Engine *> &all_engines() { static std::vector<Engine *> g; return g; }
void register_engine(Engine *e) { all_engines().push_back(e); }
Engine *engine_by_name(const std::string &n) { for (auto *e : all_engines()) if (n == e->name()) return e; return nullptr; }

} // namespace run
