#!/usr/bin/env python3
"""Generates MANIFEST.json from the table below (kept in one place so it stays consistent)."""
import json, sys

NA = {
 "C01": "Pure function of the signature bytes: no schedule, clock, peer, fault or history in the statement; deciding it needs a second INT-rule implementation plus input generation (differential fuzzing), not simulation.",
 "C02": "Pure function of (signature, document hash, level, policy constant); nothing a scheduler or fault injector controls.",
 "C03": "Pure integer/hash arithmetic over link lists; input enumeration, not a schedule/fault property.",
 "C05": "Interpreter over finite rule trees with user rule functions: a pure function of (tree, outcome assignment); small-scope enumeration is the natural tool.",
 "C09": "The three TLV codecs are pure functions of trees / byte strings (the socket-reader clause is exercised under C14 but C09 is not decided by it).",
 "C10": "Schema acceptance is a pure function of the TLV tree and static template tables.",
 "C12": "Universal memory safety over all byte strings is a fuzzing target; no schedule, fault or history to simulate (simulated runs do execute under ASan/UBSan as a by-product).",
 "C17": "Pure encode/decode with a CRC; all-substitution enumeration is input enumeration.",
 "C18": "Acceptance, signed range, trust and lookup are pure functions of (file bytes, trust anchors, constraints, query).",
 "C20": "For a given URI string the transport choice, rewritten URL, host/port and credentials are a pure function of the input; nothing a scheduler or fault injector controls enters.",
}

# property -> (engine, level category, technique, level text, level note, design_ref)
CLAIMED = {}
exec(open('/verif/manifest_claims.py').read())

def main():
    checks = []
    for pid in sorted(CLAIMED):
        c = CLAIMED[pid]
        checks.append({
            "property_id": pid,
            "quick_cmd": "./check %s quick" % pid,
            "thorough_cmd": "./check %s thorough" % pid,
            "evidence_file": "/verif/evidence/%s.json" % pid,
            "replay_cmd_template": "./check replay {path}",
            "engine": c["engine"],
            "level_claimed": {"category": c["category"], "text": c["text"], "design_ref": c["design_ref"]},
            "level_note": c["note"],
            "technique": c["technique"],
        })
    na = [{"property_id": k, "reason": v} for k, v in sorted(NA.items())]
    for pid, why in sorted(PENDING.items()):
        if pid not in CLAIMED:
            na.append({"property_id": pid, "reason": why})
    na.sort(key=lambda x: x["property_id"])
    m = {
        "version": 1,
        "setup_cmd": "make -C /verif setup",
        "hooks": {
            "guard": "LIBKSI_VERIF",
            "enable": "not needed: every seam is link-time (-Wl,--wrap= for time and the socket calls, SimCurl linked instead of -lcurl, base.c compiled with -Dmalloc=ksisim_malloc -Dcalloc=ksisim_calloc -Dfree=ksisim_free); no source hook exists in /repo",
            "baseline_off_cmd": "cd /repo && make include-test",
            "source_commits": [],
            "add_only": True,
        },
        "engines": ENGINES,
        "checks": checks,
        "not_applicable": na,
        "notes": "Deterministic simulation with fault injection (ksisim). See DESIGN.md. Exit codes: 0 held, 1 violation (VIOLATION line + replay file), 2 harness/build problem.",
    }
    json.dump(m, open('/verif/MANIFEST.json', 'w'), indent=1)
    print("wrote MANIFEST.json with %d checks, %d not_applicable" % (len(checks), len(na)))

main()
