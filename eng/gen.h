#pragma once
#include "run/plan.h"
namespace eng {
void gen_async_ops(sim::Rng &g, run::Plan &p, int nops, bool ha, int neps);
void gen_async_cfg(sim::Rng &g, run::Plan &p, bool ha);
}
