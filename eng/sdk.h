// Thin helpers around the libksi C API used by all engines.
#pragma once
extern "C" {
#include <ksi/ksi.h>
#include <ksi/net_async.h>
#include <ksi/net_ha.h>
#include <ksi/net_uri.h>
#include <ksi/tree_builder.h>
#include <ksi/blocksigner.h>
#include <ksi/signature_builder.h>
#include <ksi/hashchain.h>
#include <ksi/pkitruststore.h>
}
#include <string>
#include <cstdint>

namespace sdk {

KSI_CTX *new_ctx(int loglevel);
std::string imprint_of(const KSI_DataHash *h);
KSI_DataHash *hash_from_imprint(KSI_CTX *ctx, const std::string &imp);
std::string serialize(const KSI_Signature *sig);
KSI_Signature *parse_sig(KSI_CTX *ctx, const std::string &bytes, int *res_out = nullptr);
const char *err_name(int code);

} // namespace sdk
