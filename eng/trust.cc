// `trust` engine (C04): verification under the trust-anchor policies against a simulated extender, a simulated
// publications-file web server (files signed with the fixture PKI) and the simulated clock.
#include "eng/bworld.h"
#include "ref/pub.h"
#include "run/plan.h"
#include "sim/kernel.h"
#include <algorithm>
#include <map>

using namespace sim;
using namespace ref;

namespace eng {
namespace {

enum SigKind { S_NOCAL, S_AUTH_VALID, S_AUTH_EXPIRED, S_AUTH_FUTURE, S_AUTH_BADSIG, S_AUTH_UNKNOWN_CERT, S_PUB_IN_FILE, S_PUB_NOT_IN_FILE, S_INCONSISTENT, S_CAL_ONLY, S_AUTH_EDGE_EXPIRING, S_AUTH_EDGE_STARTING, S_AUTH_EC_GARBAGE, S_AUTH_LEAP_EXPIRED, S_AUTH_LEAP_VALID, S_AUTH_SAME_SECOND, S_REDATED, S__COUNT };
// S_AUTH_EC_GARBAGE: the authentication record names a listed, valid certificate with an EC key and carries a signature value that is
// not even an encoded ECDSA signature (the verification primitive reports an error, not a mismatch): never acceptable
// the fixture certificate auth_edge is valid from EDGE_T0 to EDGE_T1: one signature is aggregated just before it expires and published just
// after (valid at the aggregation time: acceptable), one is aggregated just before it becomes valid and published just after (KEY-03)
// the fixture certificates auth_leap_a / auth_leap_b have validity edges on 29 February (a: 2016-02-29 .. 2020-02-29, expired at the
// aggregation times of this world: KEY-03; b: 2020-02-29 .. 2024-02-29, valid: acceptable)
// S_REDATED: a genuine signature re-dated to its publication second - the aggregation chains are stamped with the publication time
// and the calendar chain omits its aggregation-time element (so that it defaults to the publication time), while the shape of the
// calendar chain still encodes the real, earlier second; hashes, calendar root and authentication record stay genuine. Internally
// inconsistent (INT-05): never OK under any policy.
static const uint64_t EDGE_T0 = 1599600000, EDGE_T1 = 1599650000;
// F_REDATED_ENTRY: properly signed, but the entry for P1's root is dated one second early (an extender reply that reproduces the root
// stands for another publication time: PUB-02)
enum FileKind { F_HONEST, F_ROGUE_SIGNER, F_OTHER_EMAIL, F_BAD_SIGNATURE, F_HTTP_404, F_OTHER_HASHES, F_ONLY_OLD, F_REDATED_ENTRY, F__COUNT };

struct TSig {
	int kind = 0;
	std::string bytes, hash, agg_root;
	uint64_t agg = 0, pub = 0;
	std::string cal_root;
	KSI_Signature *sig = nullptr;
};

struct TrustSim {
	const run::Plan &plan;
	KSI_CTX *ctx = nullptr;
	BlockingWorld bw;
	std::vector<TSig> sigs;
	uint64_t P1 = 0, P2 = 0, Pold = 0, Px = 0;
	std::vector<uint64_t> states;
	bool nontrivial = false;
	int file_kind_in_effect = F_HONEST;
	uint64_t last_state = 0;
	explicit TrustSim(const run::Plan &p) : plan(p) {}

	std::string pubfile_of(int kind) {
		static std::map<int, std::string> cache; // the world of this engine is the same in every run
		auto it = cache.find(kind);
		if (it != cache.end()) return it->second;
		return cache[kind] = pubfile_build(kind);
	}
	std::string pubfile_build(int kind) {
		std::vector<const Pki *> certs = {&pki("auth_valid"), &pki("auth_expired"), &pki("auth_future"), &pki("auth_edge"), &pki("auth_ec"), &pki("auth_leap_a"), &pki("auth_leap_b")};
		std::vector<PubEntry> pubs = {{Pold, bw.world.cal.root(Pold)}, {P1, bw.world.cal.root(P1)}, {P2, bw.world.cal.root(P2)}};
		uint64_t created = 1599999000;
		switch (kind) {
			case F_ROGUE_SIGNER: return build_pubfile(certs, pubs, pki("pubsigner_rogue"), created);
			case F_OTHER_EMAIL: return build_pubfile(certs, pubs, pki("pubsigner_otheremail"), created);
			case F_BAD_SIGNATURE: return build_pubfile(certs, pubs, pki("pubsigner"), created, 1);
			case F_OTHER_HASHES: pubs[1].hash = imprint(1, "other P1"); pubs[2].hash = imprint(1, "other P2"); return build_pubfile(certs, pubs, pki("pubsigner"), created);
			case F_ONLY_OLD: pubs.resize(1); return build_pubfile(certs, pubs, pki("pubsigner"), created);
			case F_REDATED_ENTRY: pubs[1].time = P1 - 1; return build_pubfile(certs, pubs, pki("pubsigner"), created);
			default: return build_pubfile(certs, pubs, pki("pubsigner"), created);
		}
	}

	static Tlv auth_rec_garbage(uint64_t p, const std::string &root, const Pki &k) {
		Tlv pd = Tlv::nest(0x10, {Tlv::u64(0x02, p), Tlv::raw(0x04, root)});
		return Tlv::nest(0x0805, {pd, Tlv::nest(0x0b, {Tlv::str(0x01, "1.2.840.113549.1.1.11"), Tlv::raw(0x02, std::string(70, 'Z')), Tlv::raw(0x03, k.cert_id)})});
	}
	static Tlv auth_rec(uint64_t p, const std::string &root, const Pki &k, bool badsig, bool unknown_cert) {
		Tlv pd = Tlv::nest(0x10, {Tlv::u64(0x02, p), Tlv::raw(0x04, root)});
		static std::map<std::string, std::string> cache;
		std::string &sig0 = cache[k.name + pd.enc()];
		if (sig0.empty()) rsa_sha256_sign(k, pd.enc(), sig0);
		std::string sig = sig0;
		if (badsig && !sig.empty()) sig[sig.size() / 2] ^= 0x10;
		std::string cid = unknown_cert ? std::string("\xde\xad\xbe\xef", 4) : k.cert_id;
		return Tlv::nest(0x0805, {pd, Tlv::nest(0x0b, {Tlv::str(0x01, "1.2.840.113549.1.1.11"), Tlv::raw(0x02, sig), Tlv::raw(0x03, cid)})});
	}

	void setup() {
		K.reset(1600000000000LL);
		N.reset(); C.reset();
		bw.setup(plan.c("pdu_ver", 2) == 1 ? 1 : 2, 1, 8, 6, plan.c("aggr_http", 0) != 0, plan.c("ext_http", 0) != 0);
		bw.install_hooks();
		// rounds: one per signature kind, plus filler rounds so that publication times lie between / after them
		World &w = bw.world;
		struct Raw { std::string hash, bytes; ReplyMeta m; };
		std::vector<Raw> raws;
		{ ReplyMeta m; w.make_signature(imprint(1, "old"), 0, 1, false, m); Pold = m.agg_time; }
		for (int k = 0; k < S__COUNT; k++) {
			Raw r; r.hash = imprint(k % 4 == 3 ? 5 : 1, "trust-doc-" + std::to_string(k));
			uint64_t keep = w.next_round;
			if (k == S_AUTH_EDGE_EXPIRING) w.next_round = EDGE_T1 - 3;
			if (k == S_AUTH_EDGE_STARTING) w.next_round = EDGE_T0 - 3;
			r.bytes = w.make_signature(r.hash, (uint64_t)(k == 2 ? 2 : 0), 300 + (uint64_t)k, false, r.m);
			if (k == S_AUTH_EDGE_EXPIRING || k == S_AUTH_EDGE_STARTING) w.next_round = keep;
			raws.push_back(r);
			if (k == 4) { ReplyMeta m; w.make_signature(imprint(1, "fill"), 0, 2, false, m); }
		}
		{ ReplyMeta m; w.make_signature(imprint(1, "p1"), 0, 3, false, m); P1 = m.agg_time; }
		{ ReplyMeta m; w.make_signature(imprint(1, "px"), 0, 4, false, m); Px = m.agg_time; }
		{ ReplyMeta m; w.make_signature(imprint(1, "p2"), 0, 5, false, m); P2 = m.agg_time; }
		for (int i = 0; i < 2; i++) { ReplyMeta m; w.make_signature(imprint(1, "head" + std::to_string(i)), 0, 6 + i, false, m); }
		ctx = sdk::new_ctx((int)plan.c("loglevel", 0));
		bw.attach(ctx);
		KSI_CTX_setTransferTimeoutSeconds(ctx, 5);
		KSI_CTX_setOption(ctx, KSI_OPT_PUBFILE_CACHE_TTL_SECONDS, (void *)(size_t)plan.c("ttl", 0));
		// a trust store without the system's default CA bundle (nothing of the host may decide a verdict; loading the bundle was two
		// thirds of the cost of a run): the fixture CA only
		KSI_PKITruststore *ts = nullptr;
		if (KSI_PKITruststore_new(ctx, 0, &ts) == KSI_OK && ts) {
			KSI_PKITruststore_addLookupFile(ts, (fixtures_dir() + "/ca.pem").c_str());
			if (KSI_CTX_setPKITruststore(ctx, ts) != KSI_OK) { KSI_PKITruststore_free(ts); ts = nullptr; }
		}
		if (!ts) { K.inconclusive = true; return; }
		static const KSI_CertConstraint cons[] = {{KSI_CERT_EMAIL, (char *)"publications@sim.test"}, {NULL, NULL}};
		KSI_CTX_setDefaultPubFileCertConstraints(ctx, cons);
		for (int k = 0; k < S__COUNT; k++) {
			TSig s; s.kind = k; s.hash = raws[k].hash; s.agg = raws[k].m.agg_time; s.agg_root = raws[k].m.agg_root;
			Tlv top; size_t u;
			Tlv::parse1(raws[k].bytes, 0, top, u);
			top.expand();
			uint64_t p = s.agg + 1;
			if (k == S_PUB_IN_FILE || k == S_INCONSISTENT) p = P1;
			if (k == S_PUB_NOT_IN_FILE) p = Px;
			if (k == S_AUTH_EDGE_EXPIRING || k == S_AUTH_EDGE_STARTING) p = s.agg + 6;
			if (k == S_AUTH_SAME_SECOND) p = s.agg;   // the calendar chain ends at the signature's own second
			if (k == S_REDATED) p = s.agg + 2;
			if (k != S_NOCAL) {
				CalChain cc = w.cal.chain(s.agg, p);
				if (k == S_REDATED) {
					cc.has_agg = false;
					for (auto &kid : top.kids) if (kid.tag == 0x0801 && kid.expand()) for (auto &f : kid.kids) if (f.tag == 0x02 && !f.nested) f = Tlv::u64(0x02, p);
				}
				s.pub = p; s.cal_root = cc.fold();
				top.add(cc.enc());
				std::string root = s.cal_root;
				if (k == S_INCONSISTENT) root = imprint(1, "not the root");
				if (k == S_PUB_IN_FILE || k == S_PUB_NOT_IN_FILE || k == S_INCONSISTENT) top.add(Tlv::nest(0x0803, {Tlv::nest(0x10, {Tlv::u64(0x02, p), Tlv::raw(0x04, root)})}));
				if (k == S_AUTH_VALID || k == S_AUTH_SAME_SECOND || k == S_REDATED) top.add(auth_rec(p, root, pki("auth_valid"), false, false));
				if (k == S_AUTH_EXPIRED) top.add(auth_rec(p, root, pki("auth_expired"), false, false));
				if (k == S_AUTH_FUTURE) top.add(auth_rec(p, root, pki("auth_future"), false, false));
				if (k == S_AUTH_BADSIG) top.add(auth_rec(p, root, pki("auth_valid"), true, false));
				if (k == S_AUTH_UNKNOWN_CERT) top.add(auth_rec(p, root, pki("auth_valid"), false, true));
				if (k == S_AUTH_EDGE_EXPIRING || k == S_AUTH_EDGE_STARTING) top.add(auth_rec(p, root, pki("auth_edge"), false, false));
				if (k == S_AUTH_EC_GARBAGE) top.add(auth_rec_garbage(p, root, pki("auth_ec")));
				if (k == S_AUTH_LEAP_EXPIRED) top.add(auth_rec(p, root, pki("auth_leap_a"), false, false));
				if (k == S_AUTH_LEAP_VALID) top.add(auth_rec(p, root, pki("auth_leap_b"), false, false));
			}
			s.bytes = top.enc();
			int res = KSI_Signature_parseWithPolicy(ctx, (const unsigned char *)s.bytes.data(), s.bytes.size(), KSI_VERIFICATION_POLICY_EMPTY, NULL, &s.sig);
			if (res != KSI_OK || !s.sig) { K.fail("C04", "reference-signature-unparsable", "setup", "the SDK cannot parse signature kind %d built by the reference world (0x%x)", k, res); continue; }
			sigs.push_back(s);
		}
		K.ev("setup trust P1=%llu P2=%llu", (unsigned long long)P1, (unsigned long long)P2);
	}

	// extend a signature to the nearest publication of the (honest) publications file and keep or drop the result; objects that the
	// result shares with the file must survive either way (later verdicts are judged by the usual oracles)
	std::vector<KSI_Signature *> kept;
	void op_extendpub(const run::Op &op) {
		if (sigs.empty()) return;
		TSig &s = sigs[(size_t)op.arg(0) % sigs.size()];
		if (s.kind == S_INCONSISTENT) return;
		bw.pubfile_bytes = pubfile_of(F_HONEST);
		bw.pub_http_code = 200;
		CallEnv e; e.behav = op.arg(2) % 4 == 3 ? B_STATUS_ERR : B_HONEST; e.subseed = (uint64_t)op.arg(3);
		if (op.arg(4) > 0 && plan.c("adv", 1)) { e.behav = (int)(op.arg(4) % B__COUNT); if (e.behav == B_CONF_ONLY || e.behav == B_TRUNCATED) e.behav = B_GARBAGE_PDU; nontrivial = true; }
		bw.arm(e);
		size_t served0 = bw.served.size();
		KSI_Signature *ext = nullptr;
		int res = KSI_extendSignature(ctx, s.sig, &ext);
		bw.disarm();
		K.ev("EXTENDPUB kind=%d behav=%s -> 0x%x", s.kind, behav_name(e.behav), res);
		K.count(res == KSI_OK ? "outcome.extended_to_publication" : "outcome.extend_to_publication_refused");
		// C08 through KSI_extendSignature: success only on an eligible reply for the signature's aggregation time and the nearest
		// publication of the file; the result is consistent, for the same document and second, and carries that publication
		if (res == KSI_OK && ext) {
			uint64_t P = 0;
			for (uint64_t cand : {Pold, P1, P2}) if (cand >= s.agg && (P == 0 || cand < P)) P = cand;
			const ServedRequest *sr = nullptr;
			for (size_t i = served0; i < bw.served.size(); i++) if (bw.served[i].is_ext) sr = &bw.served[i];
			std::string eb = sdk::serialize(ext);
			SigView v; SigFacts f; bool parsed = parse_signature(eb, v); if (parsed) f = evaluate(v);
			if (!sr || sr->reply.empty()) K.fail("C08", "extended-without-reply", "extendSignature", "KSI_extendSignature succeeded although the extender sent no reply");
			else if (!sr->reply_eligible) K.fail(sr->reply_info.authentic(bw.ext.mac_alg) ? "C08" : "C06", "extended-from-ineligible-reply", behav_name(sr->meta.behav), "KSI_extendSignature succeeded on a reply that is not an authentic status-0 response with the request's id (behaviour %s)", behav_name(sr->meta.behav));
			else if (!sr->reply_info.has_cal || sr->reply_info.cal_agg != s.agg || sr->reply_info.cal_pub != P) K.fail("C08", "extended-with-wrong-times", behav_name(sr->meta.behav), "KSI_extendSignature succeeded on a calendar chain for other times (reply %llu..%llu, wanted %llu..%llu)", (unsigned long long)sr->reply_info.cal_agg, (unsigned long long)sr->reply_info.cal_pub, (unsigned long long)s.agg, (unsigned long long)P);
			if (!(parsed && f.consistent)) K.fail("C08", "extended-signature-inconsistent", f.why, "the signature extended to the publications file is not internally consistent (%s)", f.why.c_str());
			else {
				if (f.input_hash != s.hash || f.agg_time != s.agg) K.fail("C08", "document-hash-changed", "extendSignature", "the extended signature is for another document hash or second");
				if (!v.has_pub || v.pub_time != P || v.pub_hash != bw.world.cal.root(P)) K.fail("C08", "publication-record-changed", "extendSignature", "the extended signature does not carry the publication of the file it was extended to");
				if (v.has_auth) K.fail("C08", "auth-record-kept", "extendSignature", "the extended signature still carries a calendar authentication record");
			}
		}
		if (ext) { if (op.arg(1) % 2) KSI_Signature_free(ext); else kept.push_back(ext); }
		// let the context reuse whatever it has recycled
		for (int i = 0; i < 3; i++) { KSI_Signature *c = nullptr; if (KSI_Signature_clone(s.sig, &c) == KSI_OK) KSI_Signature_free(c); KSI_DataHash *h = sdk::hash_from_imprint(ctx, imprint(1, "churn " + std::to_string(i))); KSI_DataHash_free(h); }
		if (sdk::serialize(s.sig) != s.bytes) K.fail("C11", "signature-serialization-changed", "extend-to-publication", "extending changed the serialization of the source signature");
		for (auto *k : kept) { int vr = KSI_Signature_verifyWithPolicy(k, NULL, 0, KSI_VERIFICATION_POLICY_INTERNAL, NULL); if (vr != KSI_OK) { K.fail("C11", "kept-signature-no-longer-verifies", "extend-to-publication", "a signature extended to a publication earlier no longer passes internal verification (0x%x)", vr); break; } }
	}

	void op_verify(const run::Op &op) {
		if (sigs.empty()) return;
		TSig &s = sigs[(size_t)op.arg(0) % sigs.size()];
		int policy = (int)(op.arg(1) % 5);
		int upk = (int)(op.arg(2) % 5);          // user publication kind
		int ext_allowed = (int)(op.arg(3) % 2);
		CallEnv e;
		e.behav = plan.c("adv", 1) && op.arg(4) % 2 ? (int)(op.arg(5) % B__COUNT) : B_HONEST;
		if (e.behav == B_CONF_ONLY || e.behav == B_TRUNCATED) e.behav = B_GARBAGE_PDU;
		e.subseed = (uint64_t)op.arg(6);
		e.fault = plan.c("faults", 0) ? (int)(op.arg(7) % 4) : 0;
		e.fault_at = (size_t)op.arg(8);
		int fkind = plan.c("ttl", 0) == 0 ? (int)(op.arg(9) % F__COUNT) : F_HONEST;
		if (!plan.c("adv", 1)) fkind = F_HONEST;
		bw.pubfile_bytes = pubfile_of(fkind);
		bw.pub_http_code = fkind == F_HTTP_404 ? 404 : 200;
		const KSI_Policy *pol = policy == 0 ? KSI_VERIFICATION_POLICY_KEY_BASED : policy == 1 ? KSI_VERIFICATION_POLICY_PUBLICATIONS_FILE_BASED :
			policy == 2 ? KSI_VERIFICATION_POLICY_USER_PUBLICATION_BASED : policy == 3 ? KSI_VERIFICATION_POLICY_CALENDAR_BASED : KSI_VERIFICATION_POLICY_GENERAL;
		KSI_VerificationContext vc;
		KSI_VerificationContext_init(&vc, ctx);
		vc.signature = s.sig;
		vc.extendingAllowed = ext_allowed;
		KSI_PublicationData *pd = nullptr;
		uint64_t up_time = 0; std::string up_hash; bool up_true = false;
		if (upk != 0) {
			switch (upk) {
				case 1: up_time = s.kind == S_NOCAL ? P1 : s.pub; up_hash = bw.world.cal.root(up_time); up_true = true; break;
				case 2: up_time = P2; up_hash = bw.world.cal.root(P2); up_true = true; break;
				case 3: up_time = P2; up_hash = imprint(1, "contradicting publication"); break;
				default: up_time = s.agg > 10 ? s.agg - 5 : 1; up_hash = bw.world.cal.root(up_time); up_true = true; break;
			}
			KSI_Integer *ti = nullptr;
			KSI_PublicationData_new(ctx, &pd);
			KSI_Integer_new(ctx, up_time, &ti);
			KSI_PublicationData_setTime(pd, ti);
			KSI_PublicationData_setImprint(pd, sdk::hash_from_imprint(ctx, up_hash));
			vc.userPublication = pd;
		}
		bw.arm(e);
		size_t served0 = bw.served.size();
		int fetch0 = bw.pub_fetches;
		KSI_PolicyVerificationResult *pr = nullptr;
		K.api_begin("verify");
		int res = KSI_SignatureVerifier_verify(pol, &vc, &pr);
		bw.disarm();
		int rc = pr ? (int)pr->finalResult.resultCode : -1, ec = pr ? (int)pr->finalResult.errorCode : -1;
		K.ev("VERIFY kind=%d policy=%d userpub=%d ext=%d behav=%s fault=%d file=%d -> res=0x%x rc=%d ec=0x%x", s.kind, policy, upk, ext_allowed, behav_name(e.behav), e.fault, fkind, res, rc, ec);
		last_state = mix(mix(mix((uint64_t)s.kind * 8 + (uint64_t)policy, (uint64_t)upk * 2 + (uint64_t)ext_allowed), mix((uint64_t)e.behav * 4 + (uint64_t)e.fault, (uint64_t)file_kind_in_effect)), mix((uint64_t)(rc + 1), (uint64_t)(ec + 1)));
		K.count(rc == 0 ? "outcome.verify_ok" : rc == 1 ? "outcome.verify_na" : rc == 2 ? "outcome.verify_fail" : "outcome.verify_error");
		if (e.behav != B_HONEST || e.fault || fkind != F_HONEST || upk >= 3) nontrivial = true;
		if (bw.pub_fetches > fetch0) file_kind_in_effect = fkind;
		int fk = plan.c("ttl", 0) == 0 ? fkind : F_HONEST;
		bool file_trusted = fk == F_HONEST || fk == F_OTHER_HASHES || fk == F_ONLY_OLD || fk == F_REDATED_ENTRY;
		bool file_lists_true = fk == F_HONEST;   // lists (P1, root), (P2, root)
		// was an eligible, honest extender reply served during this call?
		bool ext_honest = false, ext_any = false;
		for (size_t i = served0; i < bw.served.size(); i++) if (bw.served[i].is_ext) {
			ext_any = true;
			if (bw.served[i].reply_eligible && (bw.served[i].meta.behav == B_HONEST || bw.served[i].meta.behav == B_WITH_CONF) && !bw.fault_fired) ext_honest = true;
		}
		bool genuine = s.kind != S_INCONSISTENT && s.kind != S_REDATED;
		bool has_pubrec = s.kind == S_PUB_IN_FILE || s.kind == S_PUB_NOT_IN_FILE;
		// derivations of "the calendar root is bound to the anchor"
		bool d_key = (s.kind == S_AUTH_VALID || s.kind == S_AUTH_SAME_SECOND || s.kind == S_AUTH_EDGE_EXPIRING || s.kind == S_AUTH_LEAP_VALID) && file_trusted; // listed certificate valid at the aggregation time
		// every trusted file kind lists (Pold, true root); only the honest one lists P1 and P2 truly
		bool d_file = file_trusted && ((s.kind == S_PUB_IN_FILE && file_lists_true) || (ext_allowed && ext_honest && (file_lists_true || s.agg <= Pold)));
		bool d_user = upk != 0 && up_true && up_time >= s.agg && ((has_pubrec && s.pub == up_time) || (ext_allowed && ext_honest));
		// calendar-based: the authenticated extender is the anchor itself - any eligible reply whose chain starts from the signature's
		// own aggregation root and (stated) aggregation time and agrees with the right links of the signature's own calendar chain
		bool d_cal = false;
		{
			SigView sv; parse_signature(s.bytes, sv);
			for (size_t i = served0; i < bw.served.size(); i++) {
				const ServedRequest &sr = bw.served[i];
				if (!sr.is_ext || !sr.reply_eligible || bw.fault_fired) continue;
				const RespInfo &ri = sr.reply_info;
				if (!ri.has_cal || ri.cal_input != s.agg_root || ri.cal_agg != s.agg) continue;
				bool rl = true;
				if (sv.has_cal) {
					Tlv t; size_t u; CalChain rc2;
					if (!Tlv::parse1(ri.cal_enc, 0, t, u) || !parse_cal_chain(t, rc2)) rl = false;
					std::vector<std::string> o, n2;
					for (auto &l : sv.cal.links) if (!l.left) o.push_back(l.sib);
					for (auto &l : rc2.links) if (!l.left) n2.push_back(l.sib);
					if (o.size() != n2.size() && sv.cal.pub == rc2.pub) rl = false;
					for (size_t k = 0; k < o.size() && k < n2.size(); k++) if (o[k] != n2[k]) rl = false;
				}
				if (rl) d_cal = true;
			}
		}
		bool bound = genuine && (policy == 0 ? d_key : policy == 1 ? d_file : policy == 2 ? d_user : policy == 3 ? d_cal : (d_key || d_file || d_user || d_cal));
		if (rc == KSI_VER_RES_OK && res == KSI_OK) {
			if (!genuine) K.fail("C04", "ok-for-internally-inconsistent-signature", "policy-" + std::to_string(policy), "an internally inconsistent signature was reported OK under policy %d", policy);
			else if (!bound) K.fail("C04", "ok-without-bound-anchor", "policy-" + std::to_string(policy) + "/sig-" + std::to_string(s.kind), "OK under policy %d for signature kind %d although its calendar root is not bound to the anchor (user publication kind %d, extending %s, extender behaviour %s%s, publications file kind %d)", policy, s.kind, upk, ext_allowed ? "allowed" : "forbidden", behav_name(e.behav), e.fault ? " + transport fault" : "", fk);
		}
		if (rc == KSI_VER_RES_FAIL) {
			int fam = ec >> 8;
			bool fam_ok = policy == 0 ? (fam == 4 || fam == 2 || fam == 1) : policy == 1 || policy == 2 ? (fam == 3 || fam == 2 || fam == 1) : policy == 3 ? (fam == 5 || fam == 2 || fam == 1) : true;
			if (!fam_ok) K.fail("C04", "fail-with-undocumented-code", "policy-" + std::to_string(policy), "FAIL under policy %d with error code 0x%x outside the documented family", policy, ec);
			// an unavailable / failing extender or publications file is inconclusive, never a contradiction
			bool planted_contradiction = !genuine || upk == 3 || s.kind == S_AUTH_EXPIRED || s.kind == S_AUTH_LEAP_EXPIRED || s.kind == S_AUTH_FUTURE || s.kind == S_AUTH_EDGE_STARTING || s.kind == S_AUTH_BADSIG || s.kind == S_AUTH_EC_GARBAGE || fk == F_OTHER_HASHES || fk == F_REDATED_ENTRY ||
				(ext_any && !bw.fault_fired && (e.behav == B_OTHER_INPUT || e.behav == B_ALTERED_RIGHT_LINK || e.behav == B_WRONG_AGG_TIME || e.behav == B_WRONG_PUB_TIME || e.behav == B_BAD_SHAPE || e.behav == B_EXTRA_LINKS || e.behav == B_NO_AGG_TIME || e.behav == B_PUB_SHIFTED_NO_AGG));
			if (!planted_contradiction && fam != 2 && fam != 1) K.fail("C04", "fail-without-contradicting-anchor", "policy-" + std::to_string(policy) + "/0x" + std::to_string(ec), "FAIL (0x%x) under policy %d although no anchor contradicts the signature (extender behaviour %s, fault %d, file kind %d)", ec, policy, behav_name(e.behav), e.fault, fk);
		}
		// clean contradictions must be FAIL
		if (genuine && !bw.fault_fired && file_trusted && res == KSI_OK) {
			if (policy == 0 && (s.kind == S_AUTH_EXPIRED || s.kind == S_AUTH_LEAP_EXPIRED || s.kind == S_AUTH_FUTURE || s.kind == S_AUTH_EDGE_STARTING) && !(rc == KSI_VER_RES_FAIL && ec == KSI_VER_ERR_KEY_3))
				K.fail("C04", "contradiction-not-reported", "KEY-03", "key-based verification of a signature whose certificate is not valid at the aggregation time gave rc=%d ec=0x%x instead of FAIL KEY-03", rc, ec);
			if (policy == 0 && (s.kind == S_AUTH_BADSIG || s.kind == S_AUTH_EC_GARBAGE) && !(rc == KSI_VER_RES_FAIL && ec == KSI_VER_ERR_KEY_2))
				K.fail("C04", "contradiction-not-reported", "KEY-02", "key-based verification of a signature with an altered PKI signature gave rc=%d ec=0x%x instead of FAIL KEY-02", rc, ec);
			if (policy == 2 && upk == 3 && ext_allowed && ext_honest && has_pubrec == false && s.kind != S_NOCAL && rc != KSI_VER_RES_FAIL)
				K.fail("C04", "contradiction-not-reported", "PUB", "user-publication verification against a contradicting publication (honest extender) gave rc=%d ec=0x%x instead of FAIL", rc, ec);
		}
		// vacuity guard: everything honest and bound => OK
		if (bound && e.behav == B_HONEST && !bw.fault_fired && !bw.fault_ambiguous && fk == F_HONEST && res == KSI_OK && rc != KSI_VER_RES_OK) {
			bool expect = (policy == 0) || (policy == 1 && (s.kind == S_PUB_IN_FILE || (ext_allowed && s.agg <= P2))) || (policy == 2 && d_user && (has_pubrec ? s.pub == up_time : true)) || policy == 3;
			if (policy == 2 && has_pubrec && s.pub != up_time) expect = false; // a signature that carries another publication is not re-extended
			if (policy == 1 && has_pubrec && s.kind != S_PUB_IN_FILE) expect = false;
			if (expect) K.fail("C04", "honest-anchor-not-accepted", "policy-" + std::to_string(policy) + "/sig-" + std::to_string(s.kind), "policy %d, signature kind %d, user publication kind %d, extending %d: everything honest and bound, but rc=%d ec=0x%x", policy, s.kind, upk, ext_allowed, rc, ec);
		}
		// the signature is never modified
		if (sdk::serialize(s.sig) != s.bytes) K.fail("C11", "signature-serialization-changed", "trust-verify", "verification changed the serialization of the signature");
		KSI_PolicyVerificationResult_free(pr);
		vc.signature = NULL; vc.userPublication = NULL;
		KSI_VerificationContext_clean(&vc);
		KSI_PublicationData_free(pd);
	}

	run::RunResult run(bool trace) {
		run::RunResult rr;
		K.trace = trace;
		setup();
		for (size_t i = 0; i < plan.ops.size() && !K.failed() && !K.inconclusive; i++) {
			const run::Op &op = plan.ops[i];
			if (op.k == "VERIFY") op_verify(op);
			else if (op.k == "EXTENDPUB") op_extendpub(op);
			else if (op.k == "TICK") { K.advance(std::max<int64_t>(1, op.arg(0))); K.ev("TICK %lld", (long long)op.arg(0)); }
			states.push_back(last_state);
		}
		for (auto *k : kept) KSI_Signature_free(k);
		for (auto &s : sigs) if (s.sig) KSI_Signature_free(s.sig);
		if (ctx) KSI_CTX_free(ctx);
		rr.hash = K.hash; rr.violations = K.violations; rr.counters = K.counters; rr.sim_ms = K.elapsed_ms;
		rr.inconclusive = K.inconclusive; rr.nontrivial = nontrivial; rr.abstract_states = states;
		if (trace) rr.log = K.log;
		K.trace = false;
		return rr;
	}
};

struct TrustEngine : run::Engine {
	const char *name() const override { return "trust"; }
	run::Plan generate(uint64_t seed, const std::string &property, int tier) override {
		Rng g(mix(seed, 0x7125));
		run::Plan p;
		p.engine = name(); p.property = property; p.seed = seed;
		p.cfg["aggr_http"] = (int64_t)g.below(2);
		p.cfg["ext_http"] = (int64_t)g.below(2);
		p.cfg["adv"] = g.chance(1, 4) ? 0 : 1;
		p.cfg["faults"] = g.chance(1, 2) ? 0 : 1;
		p.cfg["ttl"] = g.chance(1, 3) ? 3600 : 0;
		p.cfg["pdu_ver"] = g.chance(1, 4) ? 1 : 2;
		p.cfg["loglevel"] = g.chance(1, 6) ? g.pickl<int64_t>({5, 5, 6, 7}) : 0;
		p.cfg["epoch_ms"] = (int64_t)g.below(1000);
		int n = tier ? (int)g.range(2, 16) : (int)g.range(2, 10);   // the set-up of a run (16 signatures, trust store) costs far more than a verification
		// deviations that mean something for an extender reply (the others are honest replies there)
		static const int64_t ext_behavs[] = {B_FOREIGN_ID, B_STALE_GEN, B_WRONG_AGG_TIME, B_WRONG_PUB_TIME, B_BAD_SHAPE, B_OTHER_INPUT, B_ALTERED_RIGHT_LINK, B_STATUS_ERR, B_ERROR_PDU,
			B_BAD_MAC, B_OTHER_KEY, B_OTHER_ALG, B_OTHER_VER, B_NO_HEADER, B_NO_MAC, B_GARBAGE_PDU, B_WITH_CONF, B_STATUS_CONTENT, B_EXTRA_LINKS, B_NO_AGG_TIME, B_RESP_PLUS_ERROR, B_V1_REFLECT, B_PUB_SHIFTED_NO_AGG};
		for (int i = 0; i < n; i++) {
			if (g.chance(1, 6)) p.ops.push_back({"TICK", {g.pickl<int64_t>({1000, 600000, 3700000})}});
			if (g.chance(1, 5)) p.ops.push_back({"EXTENDPUB", {(int64_t)g.below(S__COUNT), (int64_t)g.below(2), (int64_t)g.below(4), (int64_t)g.below(1 << 30), g.chance(1, 2) ? 0 : ext_behavs[g.below(sizeof ext_behavs / sizeof ext_behavs[0])]}});
			// now and then the combination "entry of the file dated one second early" x "extender answers for the next second"
			if (g.chance(1, 12)) p.ops.push_back({"VERIFY", {g.pickl<int64_t>({S_NOCAL, S_CAL_ONLY, S_AUTH_VALID, S_AUTH_UNKNOWN_CERT}), g.pickl<int64_t>({1, 4}), 0, 1, 1, B_WRONG_PUB_TIME, (int64_t)g.below(1 << 30), 0, 0, F_REDATED_ENTRY}});
			p.ops.push_back({"VERIFY", {(int64_t)g.below(S__COUNT), (int64_t)g.below(5), (int64_t)g.below(5), (int64_t)g.below(2), g.chance(2, 3) ? 1 : 0, g.chance(3, 4) ? ext_behavs[g.below(sizeof ext_behavs / sizeof ext_behavs[0])] : (int64_t)g.below(B__COUNT), (int64_t)g.below(1 << 30),
				g.chance(3, 4) ? 0 : (int64_t)g.range(1, 3), (int64_t)g.below(900), g.chance(1, 2) ? 0 : (int64_t)g.below(F__COUNT)}});
		}
		return p;
	}
	run::RunResult execute(const run::Plan &p, bool trace) override { TrustSim s(p); return s.run(trace); }
	std::map<std::string, int64_t> neutral_cfg() const override { return {{"aggr_http", 0}, {"ext_http", 0}, {"loglevel", 0}, {"epoch_ms", 0}, {"ttl", 0}, {"pdu_ver", 2}}; }
	std::string state_measure() const override { return "(signature kind, policy, user publication kind, extending allowed, extender behaviour, transport fault, publications file in effect, verdict, error code) of every verification"; }
	std::string nontrivial_rule() const override { return "a run is non-trivial when at least one verification met an adversarial extender behaviour, a transport fault, a deviating publications file or a contradicting / unusable user publication; distinct = distinct event-log hash"; }
};

static TrustEngine g_trust;
struct RegT { RegT() { run::register_engine(&g_trust); } } g_regt;

} // namespace
} // namespace eng
