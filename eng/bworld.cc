#include "eng/bworld.h"
#include "sim/kernel.h"

using namespace sim;
using namespace ref;

namespace eng {

static std::string mk(size_t n, int salt, char base) {
	std::string s;
	for (size_t k = 0; k < n; k++) s.push_back((char)(base + (k * 7 + salt * 3 + (k >> 5)) % 26));
	return s;
}

void BlockingWorld::setup(int ver, int alg, size_t keylen, size_t loginlen, bool ah, bool eh) {
	aggr.pdu_ver = ext.pdu_ver = ver;
	aggr.mac_alg = ext.mac_alg = alg;
	aggr.extender = false; ext.extender = true;
	aggr.key = mk(keylen, 1, 'A'); aggr.login = mk(loginlen, 1, 'a');
	ext.key = mk(keylen, 2, 'A'); ext.login = mk(loginlen, 2, 'a');
	aggr_http = ah; ext_http = eh;
	if (cred_in_uri) { if (!ah && aggr.key.size() >= 3) aggr.key[aggr.key.size() / 2] = ':'; if (!eh && ext.key.size() >= 3) ext.key[ext.key.size() / 3] = ':'; }
	aggr_ep = N.add_endpoint("aggr.sim", 3332);
	ext_ep = N.add_endpoint("ext.sim", 8010);
	pub_ep = N.add_endpoint("pub.sim", 80);
	aggr_uri = std::string(ah ? "ksi+http://" : "ksi+tcp://") + (cred_in_uri && !ah ? aggr.login + ":" + aggr.key + "@" : "") + "aggr.sim:3332" + (ah ? "/gt-signingservice" : "");
	ext_uri = std::string(eh ? "ksi+http://" : "ksi+tcp://") + (cred_in_uri && !eh ? ext.login + ":" + ext.key + "@" : "") + "ext.sim:8010" + (eh ? "/gt-extendingservice" : "");
	pub_url = "http://pub.sim/ksi-publications.bin";
	world.next_round = (uint64_t)(K.now_ms / 1000) - 300000;
}

void BlockingWorld::attach(KSI_CTX *ctx) {
	bool au = cred_in_uri && !aggr_http, eu = cred_in_uri && !ext_http;
	KSI_CTX_setAggregator(ctx, aggr_uri.c_str(), au ? NULL : aggr.login.c_str(), au ? NULL : aggr.key.c_str());
	KSI_CTX_setExtender(ctx, ext_uri.c_str(), eu ? NULL : ext.login.c_str(), eu ? NULL : ext.key.c_str());
	KSI_CTX_setPublicationUrl(ctx, pub_url.c_str());
	KSI_CTX_setOption(ctx, KSI_OPT_AGGR_PDU_VER, (void *)(size_t)aggr.pdu_ver);
	KSI_CTX_setOption(ctx, KSI_OPT_EXT_PDU_VER, (void *)(size_t)ext.pdu_ver);
	KSI_CTX_setOption(ctx, KSI_OPT_AGGR_HMAC_ALGORITHM, (void *)(size_t)aggr.mac_alg);
	KSI_CTX_setOption(ctx, KSI_OPT_EXT_HMAC_ALGORITHM, (void *)(size_t)ext.mac_alg);
}

std::string BlockingWorld::make_reply(ServedRequest &sr) {
	const EndpointCfg &cfg = sr.is_ext ? ext : aggr;
	std::string bytes;
	if (sr.info.has_conf_req && !sr.info.has_req && cfg.pdu_ver == 2) {
		// a configuration request: the reply is a configuration PDU, sealed with the behaviour's MAC / framing deviation (if any)
		static const int seal_only[] = {B_HONEST, B_HONEST, B_BAD_MAC, B_OTHER_KEY, B_OTHER_ALG, B_NO_MAC, B_ERROR_PDU, B_OTHER_VER, B_NO_HEADER, B_GARBAGE_PDU};
		int sb = env.behav == B_HONEST ? B_HONEST : seal_only[(size_t)env.behav % 10];
		ConfVals cv; uint64_t s2 = env.subseed;
		if (!sr.is_ext) { cv.max_level = 1 + s2 % 20; cv.aggr_period = 100 + s2 % 5000; cv.max_requests = 1 + s2 % 1000; if (s2 & 1) { cv.has_alg = true; cv.aggr_alg = 1 + (s2 >> 1) % 2 * 4; } }
		else { cv.max_requests = 1 + s2 % 1000; cv.cal_first = 1400000000 + s2 % 1000; cv.cal_last = world.head(); }
		sr.meta = ReplyMeta(); sr.meta.behav = sb; sr.meta.honest = sb == B_HONEST;
		bytes = sb == B_ERROR_PDU ? world.error_pdu(cfg, 0x0101, "ref error pdu") : sb == B_GARBAGE_PDU ? Tlv::nest(0x0777, {Tlv::u64(0x01, s2)}).enc() : world.seal(cfg, true, {conf_tlv(0x04, cv, cfg.extender)}, sb, s2);
		K.count("reply.configuration");
	} else bytes = sr.is_ext ? world.ext_reply(sr.info, cfg, env.behav, env.subseed, sr.meta) : world.aggr_reply(sr.info, cfg, env.behav, env.subseed, sr.meta);
	if (env.tamper_bit >= 0 && !bytes.empty()) {
		size_t bit = (size_t)env.tamper_bit % (bytes.size() * 8);
		bytes[bit / 8] ^= (char)(1 << (bit % 8));
		K.count("fault.tamper");
	}
	sr.reply = bytes;
	classify_response(bytes, cfg.key, sr.reply_info);
	const RespInfo &i = sr.reply_info;
	sr.reply_eligible = i.authentic(cfg.mac_alg) && i.ver == cfg.pdu_ver && i.is_ext == sr.is_ext && i.has_resp && i.has_id && sr.info.has_id && i.id == sr.info.id && i.status == 0 && !i.has_error;
	K.ev("srv %s reply id=%llx behav=%s bytes=%zu eligible=%d", sr.is_ext ? "ext" : "aggr", (unsigned long long)sr.info.id, behav_name(sr.meta.behav), bytes.size(), sr.reply_eligible);
	K.count((std::string("reply.") + behav_name(sr.meta.behav)).c_str());
	return bytes;
}

bool BlockingWorld::on_block_tcp(Conn &c, BlockWhat w) {
	if (c.ep != aggr_ep && c.ep != ext_ep) return false;
	if (w == BLOCK_SEND) {
		if (env.armed && env.fault == 4) { fault_fired = true; K.count("fault.peer_never_reads"); return false; }
		return !N.srv_take(c, 1 << 20).empty();
	}
	if (w != BLOCK_RECV) return false;
	if (!replied_) {
		std::string av = N.srv_peek(c);
		size_t fl = frame_len(av, 0);
		if (fl == 0 || fl > av.size()) return false;
		std::string pdu = N.srv_take(c, fl);
		ServedRequest sr;
		sr.is_ext = c.ep == ext_ep;
		sr.conn = c.idx;
		sr.seq = K.ev("srv %s read request %zu bytes", sr.is_ext ? "ext" : "aggr", fl);
		parse_request(pdu, (sr.is_ext ? ext : aggr).key, sr.info);
		if (!env.armed || env.fault == 3) { served.push_back(sr); K.count("fault.no_reply"); fault_fired = true; replied_ = true; return false; }
		if (env.reply_delay_ms > 0) {
			if (c.rcvtimeo_s > 0 && env.reply_delay_ms >= c.rcvtimeo_s * 1000) { served.push_back(sr); K.count("fault.reply_too_late"); fault_fired = true; replied_ = true; return false; }
			K.advance(env.reply_delay_ms);
		}
		std::string bytes = make_reply(sr);
		served.push_back(sr);
		N.srv_write(c, bytes + env.extra_after);
		replied_ = true;
		progress_ = 0;
		reply_len_ = bytes.size();
	}
	if (c.inflight() == 0) return false;
	size_t n = env.chunk ? env.chunk : c.inflight();
	if (env.chunk) K.count("fault.segmentation");
	if ((env.fault == 1 || env.fault == 2) && progress_ + n >= env.fault_at) {
		size_t k = env.fault_at > progress_ ? env.fault_at - progress_ : 0;
		if (k) N.deliver(c, k);
		progress_ += k;
		// the fault counts as one that hit the call only if it cut the reply short (a close / reset after the last byte leaves a complete reply)
		if (progress_ < reply_len_) fault_fired = true; else { K.count("probe.fault_after_complete_reply"); if (env.fault == 2) fault_ambiguous = true; } // (bytes the server sent after the reply do not count)
		if (env.fault == 1) { N.srv_close(c); c.s2c_all.resize(c.s2c_arrived); N.deliver(c, 0); K.count("fault.close"); }
		else { N.srv_reset(c); K.count("fault.reset"); }
		return true;
	}
	N.deliver(c, n);
	progress_ += n;
	return true;
}

bool BlockingWorld::on_block_http(Xfer &x) {
	if (x.st == Xfer::QUEUED) return true;
	if (x.st == Xfer::CONNECTING) {
		if (x.will_blackhole) return false;
		if (K.now_ms < x.ready_at) { K.advance(x.ready_at - K.now_ms); return true; }
		return true;
	}
	if (x.st != Xfer::SENT) return false;
	if (!x.responded) {
		if (x.ep == pub_ep) {
			pub_fetches++;
			K.count("probe.pubfile_fetch");
			if (!env.armed || env.fault == 3) { fault_fired = true; return false; }
			C.respond(x, pub_http_code, pub_http_code == 200 ? pubfile_bytes : std::string("<html><body>not found</body></html>"));
		} else {
			if (served.empty() || served.back().xfer != x.idx) return false;
			ServedRequest &sr = served.back();
			if (!env.armed || env.fault == 3) { K.count("fault.no_reply"); fault_fired = true; return false; }
			if (env.reply_delay_ms > 0) K.advance(env.reply_delay_ms);
			std::string bytes = make_reply(sr);
			C.respond(x, env.http_code, bytes);
			if (env.http_code >= 400) K.count("fault.http_status");
		}
		progress_ = 0;
	}
	if (x.inflight() == 0) return false;
	size_t n = env.chunk ? env.chunk : x.inflight();
	if ((env.fault == 1 || env.fault == 2) && progress_ + n >= env.fault_at) {
		size_t k = env.fault_at > progress_ ? env.fault_at - progress_ : 0;
		if (k) C.deliver(x, k);
		progress_ += k;
		if (x.inflight() > 0) fault_fired = true; else { K.count("probe.fault_after_complete_reply"); if (env.fault == 2) fault_ambiguous = true; }
		if (env.fault == 1) { C.srv_close(x); K.count("fault.close"); } else { C.srv_reset(x); K.count("fault.reset"); }
		return true;
	}
	C.deliver(x, n);
	progress_ += n;
	return true;
}

void BlockingWorld::warm_up(KSI_CTX *ctx, int n) {
	for (int w = 0; w < n; w++) {
		CallEnv e; e.behav = B_STATUS_ERR; e.subseed = (uint64_t)w;
		KSI_DataHash *dh = sdk::hash_from_imprint(ctx, imprint(1, "warm-up " + std::to_string(w)));
		KSI_Signature *s = nullptr;
		arm(e);
		KSI_Signature_signAggregated(ctx, dh, 0, &s);
		disarm();
		KSI_Signature_free(s); KSI_DataHash_free(dh);
		KSI_ExtendReq *rq = nullptr; KSI_RequestHandle *rh = nullptr; KSI_Integer *st = nullptr;
		KSI_Integer_new(ctx, world.head() > 10 ? world.head() - 5 : 1, &st);
		if (KSI_createExtendRequest(ctx, st, NULL, &rq) == KSI_OK) {
			arm(e);
			if (KSI_sendExtendRequest(ctx, rq, &rh) == KSI_OK) KSI_RequestHandle_perform(rh);
			disarm();
		}
		KSI_RequestHandle_free(rh); KSI_ExtendReq_free(rq); KSI_Integer_free(st);
	}
	if (n > 0) K.count("probe.long_lived_context");
}

void BlockingWorld::install_hooks() {
	N.on_block = [this](Conn &c, BlockWhat w) { return on_block_tcp(c, w); };
	C.on_block = [this](Xfer &x) { return on_block_http(x); };
	C.on_request = [this](Xfer &x) {
		if (x.ep != aggr_ep && x.ep != ext_ep) return;
		ServedRequest sr;
		sr.is_ext = x.ep == ext_ep;
		sr.http = true;
		sr.xfer = x.idx;
		sr.seq = K.seq;
		parse_request(x.req_body, (sr.is_ext ? ext : aggr).key, sr.info);
		served.push_back(sr);
	};
}

} // namespace eng
