// `world` engine: blocking signing / extending (and the blocking TCP reader) against the reference aggregator / extender
// with per-call environment scripts.  Serves C07, C08, C06 (tamper sweep), C14 (blocking reader).
#include "eng/bworld.h"
#include "eng/asyncsim.h"
#include "run/plan.h"
#include "sim/kernel.h"
#include <algorithm>
#include <memory>

using namespace sim;
using namespace ref;

namespace eng {

namespace {

struct Src {
	KSI_Signature *sig = nullptr;
	std::string bytes;
	std::string hash;
	uint64_t agg_time = 0;
	bool has_cal = false;
	uint64_t pub_time = 0;
	bool genuine = true;   // its calendar chain (if any) is the reference world's
};

// (the last one: the rounds of the reference world start three seconds before 2^32 and run across it)
static const int64_t EPOCHS_S[] = {1600000000LL, 1700000000LL, 2147483000LL, 4294967000LL, 1500100000LL, 4294967296LL + 300000 - 3};

struct WorldSim;
static WorldSim *g_wcur = nullptr;
static int w_conf_cb(KSI_CTX *, KSI_Config *c);
static int w_header_cb(KSI_Header *hdr);

struct WorldSim {
	struct ConfEv { uint64_t seq; ConfVals cv; };
	std::vector<ConfEv> conf_events;       // configurations handed to the context's configuration callback
	size_t conf_checked = 0;
	const run::Plan &plan;
	KSI_CTX *ctx = nullptr;
	BlockingWorld bw;
	std::vector<Src> pool;
	uint64_t doc_counter = 0;
	bool any_fault_in_call = false;
	bool nontrivial = false;
	std::vector<uint64_t> states;
	int transfer_to = 10, connect_to = 10;

	explicit WorldSim(const run::Plan &p) : plan(p) {}

	void setup() {
		int64_t epoch = EPOCHS_S[plan.c("epoch", 0) % 6] * 1000 + plan.c("epoch_ms", 0) % 1000;
		K.reset(epoch);
		N.reset();
		C.reset();
		int ver = plan.c("pdu_ver", 2) == 1 ? 1 : 2;
		int alg = (int)plan.c("mac_alg", 1);
		if (alg != 1 && alg != 4 && alg != 5) alg = 1;
		bw.cred_in_uri = plan.c("cred_in_uri", 0) != 0;
		bw.setup(ver, alg, (size_t)std::max<int64_t>(1, plan.c("keylen", 8)), (size_t)std::max<int64_t>(1, plan.c("loginlen", 6)), plan.c("aggr_http", 0) != 0, plan.c("ext_http", 0) != 0);
		bw.install_hooks();
		ctx = sdk::new_ctx((int)plan.c("loglevel", 0));
		bw.attach(ctx);
		transfer_to = (int)plan.c("transfer_to", 10);
		connect_to = (int)plan.c("connect_to", 10);
		KSI_CTX_setTransferTimeoutSeconds(ctx, transfer_to);
		KSI_CTX_setConnectionTimeoutSeconds(ctx, connect_to);
		g_wcur = this;
		if (plan.c("hdr_cb", 0)) { KSI_CTX_setRequestHeaderCallback(ctx, w_header_cb); K.count("probe.request_header_callback"); }
		if (plan.c("conf_cb", 0)) {
			KSI_CTX_setOption(ctx, KSI_OPT_AGGR_CONF_RECEIVED_CALLBACK, (void *)w_conf_cb);
			KSI_CTX_setOption(ctx, KSI_OPT_EXT_CONF_RECEIVED_CALLBACK, (void *)w_conf_cb);
		}
		// a few signatures made by the reference world: with / without calendar chain
		for (int i = 0; i < 3; i++) {
			ReplyMeta m;
			Src s;
			s.hash = imprint(1, "world-doc-" + std::to_string(plan.seed) + "-" + std::to_string(i));
			s.bytes = bw.world.make_signature(s.hash, (uint64_t)(i == 2 ? 3 : 0), 500 + i + plan.seed % 97, i != 1, m);
			s.agg_time = m.agg_time; s.has_cal = i != 1; s.pub_time = m.pub_time;
			int res = 0;
			s.sig = sdk::parse_sig(ctx, s.bytes, &res);
			if (!s.sig) { K.fail("C11", "reference-signature-rejected", "setup", "the SDK refuses a signature built by the reference world (0x%x)", res); continue; }
			pool.push_back(s);
		}
		// rounds after the signatures, so that the calendar has a head beyond them
		for (int i = 0; i < 3; i++) { ReplyMeta m; bw.world.make_signature(imprint(1, "later" + std::to_string(i)), 0, 900 + i, true, m); }
		K.ev("setup world ver=%d alg=%d aggr_http=%d ext_http=%d to=%d/%d", ver, alg, bw.aggr_http, bw.ext_http, transfer_to, connect_to);
	}

	void teardown() {
		for (auto &s : pool) if (s.sig) KSI_Signature_free(s.sig);
		pool.clear();
		if (ctx) KSI_CTX_free(ctx);
		ctx = nullptr;
		g_wcur = nullptr;
	}

	// C06: a configuration reaches the configuration callback of a blocking call only from the authentic reply of that call
	void check_conf_events(size_t served0, bool is_ext) {
		for (; conf_checked < conf_events.size(); conf_checked++) {
			const ConfEv &ce = conf_events[conf_checked];
			bool ok = false;
			const EndpointCfg &cfg = is_ext ? bw.ext : bw.aggr;
			for (size_t i = served0; i < bw.served.size(); i++) {
				const RespInfo &ri = bw.served[i].reply_info;
				if (!bw.served[i].reply.empty() && ri.authentic(cfg.mac_alg) && ri.ver == cfg.pdu_ver && ri.is_ext == is_ext && ri.has_conf && conf_eq(ri.conf, ce.cv)) ok = true;
			}
			K.count("probe.blocking_conf_callback");
			if (!ok) K.fail("C06", "configuration-from-unauthentic-pdu", "blocking-callback", "the configuration callback of a blocking call was given a configuration that no authentic reply of this call carries");
		}
	}

	CallEnv env_from(const run::Op &op, size_t base) {
		CallEnv e;
		e.behav = (int)(op.arg(base) % B__COUNT);
		if (plan.c("adv", 1) == 0) e.behav = B_HONEST;
		if (e.behav == B_CONF_ONLY || e.behav == B_TRUNCATED) e.behav = B_GARBAGE_PDU; // a lone config / a short frame leaves the blocking reader waiting: covered by fault 3
		e.subseed = (uint64_t)op.arg(base + 1);
		e.chunk = (size_t)op.arg(base + 2);
		e.fault = plan.c("faults", 1) ? (int)(op.arg(base + 3) % 5) : 0;
		e.fault_at = (size_t)op.arg(base + 4);
		e.reply_delay_ms = (int)op.arg(base + 5);
		return e;
	}

	void note_call_faults(const CallEnv &e) {
		any_fault_in_call = e.behav != B_HONEST || e.fault != 0 || e.chunk != 0 || e.tamper_bit >= 0 || e.reply_delay_ms > 0;
		if (any_fault_in_call) nontrivial = true;
	}

	// request as the server saw it must carry what the caller asked for (C07 #1, C06 request side)
	void check_served_request(const ServedRequest &sr, const std::string &hash, uint64_t level, bool is_ext, uint64_t agg, bool has_pub, uint64_t pub) {
		const EndpointCfg &cfg = is_ext ? bw.ext : bw.aggr;
		const ReqInfo &ri = sr.info;
		if (!ri.framed || ri.ver == 0) { K.fail("C14", "outgoing-stream-not-pdu-aligned", "blocking", "the blocking client wrote something that is not a request PDU"); return; }
		if (ri.ver != cfg.pdu_ver) K.fail("C06", "request-wrong-version", "blocking", "request framed as version %d, configured %d", ri.ver, cfg.pdu_ver);
		if (!ri.has_header || !ri.has_mac) K.fail("C06", "request-without-header-or-mac", "blocking", "request lacks header or MAC");
		else if (!ri.mac_ok || ri.mac_alg != cfg.mac_alg) K.fail("C06", "request-mac-wrong", "blocking", "request MAC does not verify under the endpoint key / configured algorithm (alg %d)", ri.mac_alg);
		if (ri.login != cfg.login) K.fail("C07", "request-login-changed", "blocking", "login id on the wire differs from the configured one");
		if (!is_ext) {
			if (!ri.has_hash || ri.hash != hash || (ri.has_level ? ri.level : 0) != level)
				K.fail("C07", "request-content-changed", "blocking", "the aggregation request on the wire carries another hash or level than the caller supplied");
		} else {
			if (!ri.has_agg_time || ri.agg_time != agg || ri.has_pub_time != has_pub || (has_pub && ri.pub_time != pub))
				K.fail("C08", "request-content-changed", "blocking", "the extend request on the wire carries other times than the signature / target");
		}
	}

	void after_call(const char *what, size_t served_before, bool timeouts_set) {
		// a blocking call must return: if the simulator found it blocked with nothing that could ever wake it, that is reported
		if (K.counters.count("probe.blocked_without_timeout") && timeouts_set) {
			K.fail("C14", "blocking-call-never-returns", what, "a blocking %s call waited on a socket without any timeout although timeouts are configured", what);
		}
		(void)served_before;
	}
	// "a peer close, reset or timed-out connection ends the request with a network error": when the armed transport fault cut the
	// call short, the error reported is one of the network class
	void check_fault_error(const char *what, int res, bool http) {
		if (!bw.fault_fired || res == KSI_OK) return;
		char key[64]; snprintf(key, sizeof key, "%s/%s/err-0x%x", what, http ? "http" : "tcp", res);
		K.count((std::string("probe.fault_error.") + key).c_str());
		bool net = res == KSI_NETWORK_ERROR || res == KSI_NETWORK_CONNECTION_TIMEOUT || res == KSI_NETWORK_SEND_TIMEOUT || res == KSI_NETWORK_RECIEVE_TIMEOUT || res == KSI_HTTP_ERROR || res == KSI_IO_ERROR;
		if (!net) K.fail("C14", "transport-fault-not-reported-as-network-error", key, "the connection was cut in the middle of the %s call, but the call returned 0x%x (%s), not a network error", what, res, sdk::err_name(res));
	}

	void op_sign(const run::Op &op, int tamper_bit = -1) {
		CallEnv e = env_from(op, 2);
		e.tamper_bit = tamper_bit;
		if (op.arg(8) % 3 == 1 && !bw.aggr_http) e.extra_after = std::string("\x82\x21\x00\x03\x01\x01\x00", 7).substr(0, 1 + (size_t)op.arg(8) % 7);
		int alg = op.arg(0) % 11 == 7 ? 5 : 1;
		std::string hash = imprint(alg, "blocking-doc-" + std::to_string(plan.seed) + "-" + std::to_string(doc_counter++));
		uint64_t level = (uint64_t)(op.arg(1) % 5 == 4 ? op.arg(1) % 100 : op.arg(1) % 3);
		KSI_DataHash *dh = sdk::hash_from_imprint(ctx, hash);
		if (!dh) return;
		if (bw.aggr_ep >= 0) N.eps[bw.aggr_ep].eintr_next = plan.c("faults", 1) ? (int)(op.arg(9) % 4 == 3 ? 2 : 0) : 0;
		bw.arm(e);
		note_call_faults(e);
		size_t served0 = bw.served.size(), conns0 = N.conns.size();
		KSI_Signature *sig = (KSI_Signature *)(uintptr_t)0x5151;
		K.api_begin("sign");
		// API variants of the same operation: signAggregated (macro over ...WithPolicy with a NULL context), KSI_createSignature and
		// KSI_Signature_signWithPolicy (level 0), ...WithPolicy with an initialised verification context
		int variant = (int)(op.arg(10) % 4);
		if (variant == 1 || variant == 2) level = 0;
		int res;
		if (variant == 1) res = KSI_createSignature(ctx, dh, &sig);
		else if (variant == 2) res = KSI_Signature_signWithPolicy(ctx, dh, KSI_VERIFICATION_POLICY_INTERNAL, NULL, &sig);
		else if (variant == 3) {
			KSI_VerificationContext vc;
			KSI_VerificationContext_init(&vc, ctx);
			res = KSI_Signature_signAggregatedWithPolicy(ctx, dh, level, KSI_VERIFICATION_POLICY_INTERNAL, &vc, &sig);
			KSI_VerificationContext_clean(&vc);
		} else res = KSI_Signature_signAggregated(ctx, dh, level, &sig);
		K.ev("SIGN/%d level=%llu -> 0x%x", variant, (unsigned long long)level, res);
		KSI_DataHash_free(dh);
		bw.disarm();
		after_call("sign", served0, transfer_to > 0);
		check_fault_error("sign", res, bw.aggr_http);
		check_conf_events(served0, false);
		K.count(res == KSI_OK ? "outcome.sign_ok" : "outcome.sign_error");
		const ServedRequest *sr = bw.served.size() > served0 ? &bw.served[served0] : nullptr;
		if (bw.served.size() > served0 + 1) K.fail("C07", "request-sent-twice", "blocking", "one signing call produced %zu requests", bw.served.size() - served0);
		if (sr) check_served_request(*sr, hash, level, false, 0, false, 0);
		if (res == KSI_OK) {
			if (sig == (KSI_Signature *)(uintptr_t)0x5151 || !sig) { K.fail("C07", "success-without-signature", "blocking", "signing returned KSI_OK without a signature"); return; }
			std::string bytes = sdk::serialize(sig);
			SigView v; bool parsed = parse_signature(bytes, v);
			SigFacts f = parsed ? evaluate(v) : SigFacts();
			if (!sr || sr->reply.empty()) K.fail("C07", "signature-without-reply", "blocking", "signing succeeded although the server sent no reply");
			else if (!sr->reply_eligible) K.fail(sr->reply_info.authentic(bw.aggr.mac_alg) ? "C07" : "C06", "signature-from-ineligible-reply", behav_name(sr->meta.behav),
				"signing succeeded on a reply that is not an authentic status-0 response with the request's id (behaviour %s%s)", behav_name(sr->meta.behav), tamper_bit >= 0 ? ", bit flipped in flight" : "");
			if (!(parsed && f.consistent && f.input_hash == hash && f.first_lc >= level))
				K.fail("C07", "signature-accepted-but-invalid", f.why.empty() ? "hash-or-level" : f.why, "signing succeeded but the signature is not valid for the requested hash / level (%s)", f.why.c_str());
			else if (sr && !sig_ok_content(v, *sr, level)) K.fail("C07", "response-content-mismatch", "blocking", "the returned signature is not the content of the reply");
			// C14 #6: the blocking reader takes exactly one PDU from the socket
			if (sr && sr->conn >= 0) {
				Conn &c = *N.conns[(size_t)sr->conn];
				if (c.s2c_read != sr->reply.size()) K.fail("C14", "blocking-reader-consumed-wrong-amount", "sign", "the blocking reader took %zu bytes from the socket, the first PDU has %zu", c.s2c_read, sr->reply.size());
			}
			Src s; s.sig = sig; s.bytes = bytes; s.hash = hash; s.agg_time = f.agg_time; s.has_cal = v.has_cal; s.pub_time = v.has_cal ? v.cal.pub : 0;
			pool.push_back(s);
		} else {
			if (sig != (KSI_Signature *)(uintptr_t)0x5151) K.fail("C07", "output-touched-on-error", "blocking", "signing failed (0x%x) but wrote to the output pointer", res);
			// vacuity guard: an honest, untouched exchange must succeed
			if (sr && sr->reply_eligible && (sr->meta.behav == B_HONEST || sr->meta.behav == B_WITH_CONF) && e.fault == 0 && tamper_bit < 0 && e.extra_after.empty() &&
			    (e.reply_delay_ms == 0 || transfer_to == 0 || e.reply_delay_ms < transfer_to * 1000) && transfer_to != 0)
				K.fail("C07", "honest-reply-rejected", sdk::err_name(res), "signing failed with 0x%x although the server replied honestly and nothing was disturbed", res);
		}
		(void)conns0;
	}

	bool sig_ok_content(const SigView &v, const ServedRequest &sr, uint64_t level) {
		// same chains as the reply (the SDK adds the requested level to the first correction)
		std::vector<AggChain> theirs;
		for (auto &enc : sr.reply_info.chain_encs) { Tlv t; size_t u; AggChain c; if (!Tlv::parse1(enc, 0, t, u) || !parse_agg_chain(t, c)) return false; theirs.push_back(c); }
		if (theirs.size() != v.agg.size()) return false;
		std::stable_sort(theirs.begin(), theirs.end(), [](const AggChain &x, const AggChain &y) { return x.index.size() > y.index.size(); });
		for (size_t ci = 0; ci < theirs.size(); ci++) {
			const AggChain &x = v.agg[ci], &y = theirs[ci];
			if (x.time != y.time || x.index != y.index || x.input != y.input || x.alg != y.alg || x.links.size() != y.links.size()) return false;
			for (size_t li = 0; li < x.links.size(); li++) {
				uint64_t want = y.links[li].lc + ((ci == 0 && li == 0) ? level : 0);
				if (x.links[li].left != y.links[li].left || x.links[li].kind != y.links[li].kind || x.links[li].sib != y.links[li].sib || x.links[li].lc != want) return false;
			}
		}
		return !v.has_cal || v.cal_raw == sr.reply_info.cal_enc;
	}

	void op_sign_deprecated() {
		std::string hash = imprint(0, "sha1-doc-" + std::to_string(doc_counter++));
		KSI_DataHash *dh = sdk::hash_from_imprint(ctx, hash);
		if (!dh) { K.count("probe.sha1_hash_refused_at_construction"); return; }
		size_t res0 = N.resolved.size(), conns0 = N.conns.size(), x0 = C.xfers.size();
		CallEnv e; bw.arm(e);
		KSI_Signature *sig = nullptr;
		int res = KSI_createSignature(ctx, dh, &sig);
		bw.disarm();
		K.ev("SIGN-SHA1 -> 0x%x", res);
		K.count("probe.deprecated_algorithm_sign");
		KSI_DataHash_free(dh);
		if (res == KSI_OK) { K.fail("C07", "deprecated-algorithm-accepted", "blocking", "KSI_createSignature accepted a SHA-1 input hash"); if (sig) KSI_Signature_free(sig); }
		if (N.resolved.size() != res0 || N.conns.size() != conns0 || C.xfers.size() != x0)
			K.fail("C07", "deprecated-algorithm-sent", "blocking", "network activity before an untrusted input hash algorithm was refused");
	}

	void op_extend(const run::Op &op, int tamper_bit = -1) {
		if (pool.empty()) return;
		Src &src = pool[(size_t)op.arg(0) % pool.size()];
		CallEnv e = env_from(op, 2);
		e.tamper_bit = tamper_bit;
		int target = (int)(op.arg(1) % 5);
		uint64_t head = bw.world.head();
		bool has_pub = false; uint64_t pub = 0;
		KSI_Integer *to = nullptr;
		KSI_PublicationRecord *prec = nullptr;
		std::string prec_enc;
		if (target == 1 || target == 2) { has_pub = true; pub = std::min<uint64_t>(head, src.agg_time + (uint64_t)(op.arg(8) % 4)); }
		if (target == 3) { has_pub = true; pub = src.agg_time > 2 ? src.agg_time - 1 - (uint64_t)(op.arg(8) % 2) : 1; }
		if (target == 4) {
			has_pub = true; pub = std::min<uint64_t>(head, src.agg_time + 1 + (uint64_t)(op.arg(8) % 3));
			KSI_PublicationData *pd = nullptr; KSI_Integer *t = nullptr;
			std::string root = bw.world.cal.root(pub);
			if (op.arg(8) % 7 == 6) root = imprint(1, "some other root"); // a publication the calendar does not reproduce
			KSI_PublicationData_new(ctx, &pd);
			KSI_Integer_new(ctx, pub, &t);
			KSI_PublicationData_setTime(pd, t);
			KSI_PublicationData_setImprint(pd, sdk::hash_from_imprint(ctx, root));
			KSI_PublicationRecord_new(ctx, &prec);
			KSI_PublicationRecord_setPublishedData(prec, pd);
			prec_enc = Tlv::nest(0x10, {Tlv::u64(0x02, pub), Tlv::raw(0x04, root)}).enc();
		} else if (has_pub) KSI_Integer_new(ctx, pub, &to);
		bw.arm(e);
		note_call_faults(e);
		size_t served0 = bw.served.size();
		KSI_Signature *out = (KSI_Signature *)(uintptr_t)0x5151;
		K.api_begin("extend");
		// the caller's verification context: none (the plain macros), a fresh one, or a long-lived one that was last used for
		// another signature (the extend call verifies its own result, whatever the context named before)
		int ctxmode = (int)(op.arg(9) % 3);
		KSI_VerificationContext vc;
		bool have_vc = ctxmode != 0 && KSI_VerificationContext_init(&vc, ctx) == KSI_OK;
		if (have_vc && ctxmode == 2) { vc.signature = pool[(size_t)(op.arg(0) + 1) % pool.size()].sig; K.count("probe.extend_with_used_verification_context"); }
		int res;
		if (!have_vc) res = target == 4 ? KSI_Signature_extend(src.sig, ctx, prec, &out) : KSI_Signature_extendTo(src.sig, ctx, to, &out);
		else res = target == 4 ? KSI_Signature_extendWithPolicy(src.sig, ctx, prec, KSI_VERIFICATION_POLICY_INTERNAL, &vc, &out)
		                       : KSI_Signature_extendToWithPolicy(src.sig, ctx, to, KSI_VERIFICATION_POLICY_INTERNAL, &vc, &out);
		if (have_vc) { vc.signature = NULL; KSI_VerificationContext_clean(&vc); }
		K.ev("EXTEND target=%d pub=%llu ctx=%d -> 0x%x", target, (unsigned long long)pub, ctxmode, res);
		bw.disarm();
		after_call("extend", served0, transfer_to > 0);
		check_fault_error("extend", res, bw.ext_http);
		check_conf_events(served0, true);
		K.count(res == KSI_OK ? "outcome.extend_ok" : "outcome.extend_error");
		if (to) KSI_Integer_free(to);
		const ServedRequest *sr = bw.served.size() > served0 ? &bw.served[served0] : nullptr;
		if (sr) check_served_request(*sr, "", 0, true, src.agg_time, has_pub, pub);
		// the source is never touched
		std::string after = sdk::serialize(src.sig);
		if (after != src.bytes) K.fail("C08", "source-signature-modified", res == KSI_OK ? "on-success" : "on-error", "extending changed the serialization of the source signature");
		if (res == KSI_OK) {
			if (out == (KSI_Signature *)(uintptr_t)0x5151 || !out) { K.fail("C08", "success-without-signature", "blocking", "extending returned KSI_OK without a signature"); }
			else {
				std::string bytes = sdk::serialize(out);
				SigView v, sv; bool parsed = parse_signature(bytes, v); parse_signature(src.bytes, sv);
				SigFacts f = parsed ? evaluate(v) : SigFacts();
				if (!sr || sr->reply.empty()) K.fail("C08", "extended-without-reply", "blocking", "extending succeeded although the extender sent no reply");
				else {
					if (!sr->reply_eligible) K.fail(sr->reply_info.authentic(bw.ext.mac_alg) ? "C08" : "C06", "extended-from-ineligible-reply", behav_name(sr->meta.behav), "extending succeeded on a reply that is not an authentic status-0 response with the request's id (behaviour %s)", behav_name(sr->meta.behav));
					const RespInfo &ri = sr->reply_info;
					if (!ri.has_cal || ri.cal_agg != src.agg_time || (has_pub && ri.cal_pub != pub) || !ri.cal_shape_ok)
						K.fail("C08", "extended-with-wrong-times", behav_name(sr->meta.behav), "extending succeeded on a calendar chain for other times / an impossible shape");
					if (parsed && v.cal_raw != ri.cal_enc) K.fail("C08", "calendar-chain-not-the-replys", "blocking", "the extended signature does not carry the reply's calendar chain");
				}
				if (!(parsed && f.consistent)) K.fail("C08", "extended-signature-inconsistent", f.why, "the extended signature is not internally consistent (%s)", f.why.c_str());
				if (parsed && v.agg_raw != sv.agg_raw) K.fail("C08", "aggregation-chains-changed", "blocking", "extending changed the aggregation hash chains");
				if (parsed && f.input_hash != src.hash) K.fail("C08", "document-hash-changed", "blocking", "the extended signature is for another document hash");
				if (parsed && f.agg_time != src.agg_time) K.fail("C08", "signing-time-changed", "blocking", "the extended signature has another signing time");
				if (parsed && v.has_auth) K.fail("C08", "auth-record-kept", "blocking", "the extended signature still carries a calendar authentication record");
				if (parsed && target == 4) {
					if (!v.has_pub) K.fail("C08", "publication-record-missing", "blocking", "the extended signature lacks the supplied publication record");
					else {
						Tlv t; size_t u; std::string got;
						if (Tlv::parse1(v.pub_raw, 0, t, u) && t.expand()) if (const Tlv *pd = t.find(0x10)) got = pd->enc();
						if (got != prec_enc) K.fail("C08", "publication-record-changed", "blocking", "the extended signature carries another publication than the one supplied");
					}
				} else if (parsed && v.has_pub) K.fail("C08", "publication-record-kept", "blocking", "extending to a time left a publication record in the signature");
				// right links of the previous calendar chain must reappear in the new one
				if (parsed && v.has_cal && sv.has_cal) {
					std::vector<std::string> o, n2;
					for (auto &l : sv.cal.links) if (!l.left) o.push_back(l.sib);
					for (auto &l : v.cal.links) if (!l.left) n2.push_back(l.sib);
					for (size_t i = 0; i < o.size() && i < n2.size(); i++) if (o[i] != n2[i]) { K.fail("C08", "right-links-disagree", sr ? behav_name(sr->meta.behav) : "?", "extending succeeded although right link %zu of the new calendar chain differs from the signature's previous chain", i); break; }
				}
				Src s; s.sig = out; s.bytes = bytes; s.hash = src.hash; s.agg_time = src.agg_time; s.has_cal = v.has_cal; s.pub_time = v.has_cal ? v.cal.pub : 0;
				s.genuine = src.genuine && sr && (sr->meta.behav == B_HONEST || sr->meta.behav == B_WITH_CONF);
				pool.push_back(s);
			}
		} else {
			if (out != (KSI_Signature *)(uintptr_t)0x5151) K.fail("C08", "output-touched-on-error", "blocking", "extending failed (0x%x) but wrote to the output pointer", res);
			bool possible = src.agg_time <= (has_pub ? pub : head) && (!has_pub || pub <= head);
			bool pub_ok = target != 4 || op.arg(8) % 7 != 6;
			if (sr && src.genuine && sr->reply_eligible && (sr->meta.behav == B_HONEST || sr->meta.behav == B_WITH_CONF) && e.fault == 0 && possible && pub_ok &&
			    (e.reply_delay_ms == 0 || e.reply_delay_ms < transfer_to * 1000) && transfer_to != 0)
				K.fail("C08", "honest-reply-rejected", sdk::err_name(res), "extending failed with 0x%x although the extender replied honestly and nothing was disturbed", res);
		}
		if (prec) KSI_PublicationRecord_free(prec);
	}

	// blocking configuration request (KSI_receiveAggregatorConfig / KSI_receiveExtenderConfig)
	void op_config(const run::Op &op, int tamper_bit = -1) {
		bool is_ext = op.arg(0) % 2 == 1;
		CallEnv e = env_from(op, 2);
		if (e.fault == 4) e.fault = 3;    // the request is smaller than any send buffer
		e.tamper_bit = tamper_bit;
		const EndpointCfg &cfg = is_ext ? bw.ext : bw.aggr;
		bool http = is_ext ? bw.ext_http : bw.aggr_http;
		bw.arm(e);
		note_call_faults(e);
		size_t served0 = bw.served.size();
		KSI_Config *conf = (KSI_Config *)(uintptr_t)0x5151;
		K.api_begin("config");
		int res = is_ext ? KSI_receiveExtenderConfig(ctx, &conf) : KSI_receiveAggregatorConfig(ctx, &conf);
		K.ev("CONFIG %s -> 0x%x", is_ext ? "ext" : "aggr", res);
		bw.disarm();
		after_call("config", served0, transfer_to > 0);
		check_fault_error("config", res, http);
		check_conf_events(served0, is_ext);
		K.count(res == KSI_OK ? "outcome.config_ok" : "outcome.config_error");
		const ServedRequest *sr = bw.served.size() > served0 ? &bw.served[served0] : nullptr;
		if (bw.served.size() > served0 + 1) K.fail("C07", "request-sent-twice", "blocking-config", "one configuration call produced %zu requests", bw.served.size() - served0);
		if (is_ext && cfg.pdu_ver == 1) {
			if (res == KSI_OK || sr) K.fail("C06", "configuration-over-version-1", "blocking", "an extender configuration request was made although PDU version 1 has none (0x%x)", res);
			if (res == KSI_OK && conf && conf != (KSI_Config *)(uintptr_t)0x5151) KSI_Config_free(conf);
			return;
		}
		if (sr) {
			const ReqInfo &ri = sr->info;
			if (!ri.framed || ri.ver == 0) K.fail("C14", "outgoing-stream-not-pdu-aligned", "blocking-config", "the blocking client wrote something that is not a request PDU");
			else {
				if (ri.ver != cfg.pdu_ver) K.fail("C06", "request-wrong-version", "blocking-config", "request framed as version %d, configured %d", ri.ver, cfg.pdu_ver);
				if (!ri.has_header || !ri.has_mac) K.fail("C06", "request-without-header-or-mac", "blocking-config", "request lacks header or MAC");
				else if (!ri.mac_ok || ri.mac_alg != cfg.mac_alg) K.fail("C06", "request-mac-wrong", "blocking-config", "request MAC does not verify under the endpoint key / configured algorithm (alg %d)", ri.mac_alg);
				if (ri.login != cfg.login) K.fail("C07", "request-login-changed", "blocking-config", "login id on the wire differs from the configured one");
			}
		}
		if (res == KSI_OK) {
			if (conf == (KSI_Config *)(uintptr_t)0x5151) { K.fail("C06", "success-without-configuration", "blocking", "the configuration call returned KSI_OK without writing its output"); return; }
			// KSI_OK with a NULL configuration is what the call reports when the (authentic) reply carries none - e.g. a version-1
			// response with an error status; no content is delivered, so C06 only asks that the reply was authentic
			bool none = conf == nullptr;
			ConfVals got = none ? ConfVals() : read_config(conf);
			KSI_Config_free(conf);
			if (none) K.count("probe.config_ok_without_configuration");
			if (!sr || sr->reply.empty()) K.fail("C06", "configuration-without-reply", "blocking", "the configuration call succeeded although the server sent no reply");
			else {
				const RespInfo &ri = sr->reply_info;
				bool auth = ri.authentic(cfg.mac_alg) && ri.ver == cfg.pdu_ver && ri.is_ext == is_ext;
				if (none && auth && !ri.has_error && !ri.has_conf) ;
				else if (!auth || ri.has_error || !ri.has_conf || none) K.fail("C06", "configuration-from-unauthentic-pdu", behav_name(sr->meta.behav), "the configuration call succeeded on a reply that is not an authentic configuration PDU (behaviour %s%s)", behav_name(sr->meta.behav), tamper_bit >= 0 ? ", bit flipped in flight" : "");
				else if (!conf_eq(ri.conf, got)) K.fail("C06", "configuration-content-mismatch", "blocking", "the configuration returned is not the content of the reply");
			}
		} else {
			if (conf != (KSI_Config *)(uintptr_t)0x5151) K.fail("C06", "output-touched-on-error", "blocking-config", "the configuration call failed (0x%x) but wrote to the output pointer", res);
			if (sr && sr->meta.behav == B_HONEST && sr->meta.honest && sr->reply_info.has_conf && e.fault == 0 && tamper_bit < 0 && cfg.pdu_ver == 2 &&
			    (e.reply_delay_ms == 0 || transfer_to == 0 || e.reply_delay_ms < transfer_to * 1000) && transfer_to != 0)
				K.fail("C06", "honest-configuration-rejected", sdk::err_name(res), "the configuration call failed with 0x%x although the server replied honestly and nothing was disturbed", res);
		}
	}

	void op_sweep(const run::Op &op) {
		// C06: flip single bits of one reply (a stride of the positions; the phases of all runs together cover every bit)
		run::Op base = op;
		bool ext = op.arg(12) % 3 == 1;   // sweep an extender reply instead of an aggregator reply
		bool conf = op.arg(12) % 3 == 2 && bw.aggr.pdu_ver == 2; // ... or the reply to a configuration request
		base.k = conf ? "CONFIG" : ext ? "EXTEND" : "SIGN";
		if (ext) { base.a.resize(10); base.a[1] = op.arg(1) % 3 == 0 ? 0 : 1; base.a[8] = 1; base.a[9] = 0; }
		size_t stride = (size_t)std::max<int64_t>(1, op.arg(10, 13)), phase = (size_t)op.arg(11) % stride;
		if (!ext && !conf && base.a.size() > 10) base.a[10] = op.arg(0) % 4;   // API variant of the swept signing call
		size_t approx_bits = 8 * 1400;
		for (size_t bit = phase; bit < approx_bits; bit += stride) {
			if (conf) op_config(base, (int)bit); else if (ext) op_extend(base, (int)bit); else op_sign(base, (int)bit);
			if (K.failed()) return;
			if (!bw.served.empty() && !bw.served.back().reply.empty() && bit + stride >= bw.served.back().reply.size() * 8) break;
		}
	}

	void exec(const run::Op &op) {
		if (op.k == "SIGN") op_sign(op);
		else if (op.k == "SIGNSHA1") op_sign_deprecated();
		else if (op.k == "EXTEND") op_extend(op);
		else if (op.k == "SWEEP") op_sweep(op);
		else if (op.k == "CONFIG") op_config(op);
		else if (op.k == "TICK") { K.advance(std::max<int64_t>(1, op.arg(0))); K.ev("TICK %lld", (long long)op.arg(0)); }
		uint64_t h = mix(pool.size(), bw.served.size());
		states.push_back(mix(h, K.violations.size()));
	}

	run::RunResult run(bool trace) {
		run::RunResult rr;
		K.trace = trace;
		setup();
		{ size_t s0 = bw.served.size(); bw.warm_up(ctx, (int)plan.c("warm", 0)); if (bw.served.size() > s0) bw.served.resize(s0); }
		for (size_t i = 0; i < plan.ops.size() && !K.failed() && !K.inconclusive; i++) exec(plan.ops[i]);
		teardown();
		rr.hash = K.hash; rr.violations = K.violations; rr.counters = K.counters; rr.sim_ms = K.elapsed_ms;
		rr.inconclusive = K.inconclusive; rr.inconclusive_why = K.inconclusive_why;
		rr.nontrivial = nontrivial; rr.abstract_states = states;
		if (trace) rr.log = K.log;
		K.trace = false;
		return rr;
	}
};

// the application's request header callback: it sets the instance and message ids of every request header (the MAC must cover them)
static int w_header_cb(KSI_Header *hdr) {
	static uint64_t msg = 0;
	KSI_CTX *c = g_wcur ? g_wcur->ctx : nullptr; KSI_Integer *inst = nullptr, *mid = nullptr;
	if (!c) return KSI_OK;
	if (KSI_Integer_new(c, 0x1234567, &inst) == KSI_OK && KSI_Header_setInstanceId(hdr, inst) != KSI_OK) KSI_Integer_free(inst);
	if (KSI_Integer_new(c, 1000 + ++msg, &mid) == KSI_OK && KSI_Header_setMessageId(hdr, mid) != KSI_OK) KSI_Integer_free(mid);
	return KSI_OK;
}

static int w_conf_cb(KSI_CTX *, KSI_Config *c) {
	if (g_wcur) g_wcur->conf_events.push_back({K.ev("conf-callback"), read_config(c)});
	return KSI_OK;
}

struct WorldEngine : run::Engine {
	const char *name() const override { return "world"; }
	run::Plan generate(uint64_t seed, const std::string &property, int tier) override {
		Rng g(mix(seed, 0x3011d));
		run::Plan p;
		p.engine = name(); p.property = property; p.seed = seed;
		p.cfg["aggr_http"] = property == "C14" ? 0 : (int64_t)g.below(2);
		p.cfg["ext_http"] = property == "C14" ? 0 : (int64_t)g.below(2);
		p.cfg["pdu_ver"] = g.chance(1, 4) ? 1 : 2;
		p.cfg["mac_alg"] = g.pickl<int64_t>({1, 1, 1, 5, 4});
		p.cfg["keylen"] = g.pickl<int64_t>({1, 4, 8, 32, 63, 64, 65, 128, 129, 200});
		p.cfg["loginlen"] = g.pickl<int64_t>({1, 6, 6, 40, 300});
		p.cfg["transfer_to"] = g.pickl<int64_t>({1, 2, 5, 10, 10});
		p.cfg["connect_to"] = g.pickl<int64_t>({1, 2, 5, 10, 10});
		p.cfg["adv"] = g.chance(1, 4) ? 0 : 1;
		p.cfg["faults"] = g.chance(1, 4) ? 0 : 1;
		p.cfg["epoch"] = g.chance(1, 8) ? 5 : (int64_t)g.below(5);
		p.cfg["epoch_ms"] = (int64_t)g.below(1000);
		p.cfg["loglevel"] = g.chance(1, 6) ? g.pickl<int64_t>({5, 5, 6, 7}) : 0;
		p.cfg["warm"] = g.chance(1, 30) ? (int64_t)g.range(250, 258) : 0;
		int n = tier ? (int)g.range(4, 24) : (int)g.range(1, 8);
		auto env_args = [&](std::vector<int64_t> &a) {
			a.push_back(g.chance(1, 2) ? 0 : (int64_t)g.below(B__COUNT));          // behaviour
			a.push_back((int64_t)g.below(1 << 30));                                  // subseed
			a.push_back(g.chance(1, 2) ? 0 : g.pickl<int64_t>({1, 2, 3, 4, 5, 17, 100, 1000})); // chunk
			a.push_back(g.chance(2, 3) ? 0 : (int64_t)g.range(1, 4));                 // fault
			a.push_back(g.chance(1, 3) ? (int64_t)g.below(8) : (int64_t)g.below(1200)); // fault_at
			a.push_back(g.chance(3, 4) ? 0 : g.pickl<int64_t>({300, 999, 1500, 4000, 12000})); // reply delay
		};
		if (property == "C06") {
			// tamper sweeps: every bit position of one reply, split over `stride` phases
			p.cfg["adv"] = 1; p.cfg["faults"] = 0;
			run::Op op; op.k = "SWEEP";
			op.a = {(int64_t)g.below(20), (int64_t)g.below(3), 0, (int64_t)g.below(1 << 30), 0, 0, 0, 0, 0, 0, 29, (int64_t)g.below(29), (int64_t)g.below(3)};
			p.cfg["conf_cb"] = (int64_t)g.below(2);
			p.cfg["cred_in_uri"] = g.chance(1, 4) ? 1 : 0;
			p.cfg["hdr_cb"] = g.chance(1, 3) ? 1 : 0;
			p.ops.push_back(op);
			return p;
		}
		for (int i = 0; i < n; i++) {
			run::Op op;
			int r = (int)g.below(100);
			bool want_ext = property == "C08" ? r < 75 : property == "C07" ? r < 10 : r < 35;
			if (r >= 97) { op.k = "SIGNSHA1"; }
			else if (r >= 84 && r < 90) {
				op.k = "CONFIG";
				op.a = {(int64_t)g.below(2), 0};
				env_args(op.a);
			}
			else if (r >= 90) { op.k = "TICK"; op.a = {g.pickl<int64_t>({100, 1000, 5000})}; }
			else if (want_ext) {
				op.k = "EXTEND";
				op.a = {(int64_t)g.below(8), (int64_t)g.below(5)};
				env_args(op.a);
				op.a.push_back((int64_t)g.below(64));
				op.a.push_back(g.chance(1, 2) ? 0 : (int64_t)g.range(1, 2));
			} else {
				op.k = "SIGN";
				op.a = {(int64_t)g.below(64), (int64_t)g.below(64)};
				env_args(op.a);
				op.a.push_back((int64_t)g.below(64));
				op.a.push_back((int64_t)g.below(64));
				op.a.push_back(g.chance(1, 2) ? 0 : (int64_t)g.range(1, 3));
			}
			p.ops.push_back(op);
		}
		p.cfg["conf_cb"] = (int64_t)g.below(2);
		p.cfg["cred_in_uri"] = g.chance(1, 4) ? 1 : 0;
		p.cfg["hdr_cb"] = g.chance(1, 4) ? 1 : 0;
		return p;
	}
	run::RunResult execute(const run::Plan &p, bool trace) override {
		WorldSim s(p);
		return s.run(trace);
	}
	std::map<std::string, int64_t> neutral_cfg() const override {
		return {{"aggr_http", 0}, {"ext_http", 0}, {"pdu_ver", 2}, {"mac_alg", 1}, {"keylen", 8}, {"loginlen", 6}, {"transfer_to", 10}, {"connect_to", 10}, {"epoch", 0}, {"epoch_ms", 0}, {"loglevel", 0}};
	}
	std::string state_measure() const override { return "(signatures held, requests served by the reference servers so far) after every call"; }
	std::string nontrivial_rule() const override { return "a run is non-trivial when at least one call met an adversarial server behaviour, a transport fault, segmentation, delay or an in-flight bit flip; distinct = distinct event-log hash"; }
};

static WorldEngine g_world;
struct RegW { RegW() { run::register_engine(&g_world); } } g_regw;

} // namespace
} // namespace eng
