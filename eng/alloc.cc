// `alloc` engine (C19): every operation of a catalogue is run inside the simulator with the n-th KSI_malloc / KSI_calloc
// failing.  Complete single-fault sweep + seeded multi-fault sets.
#include "eng/bworld.h"
#include "ref/pub.h"
#include "run/plan.h"
#include "run/runner.h"
#include "sim/kernel.h"
#include "sim/simalloc.h"
#include "sim/peek.h"
#include <cstring>
#include <functional>
#include <set>

using namespace sim;
using namespace ref;

namespace eng {
namespace {

struct Env {
	KSI_CTX *ctx = nullptr;
	BlockingWorld bw;
	std::string hash, sig_bytes, sig_nocal_bytes, aggr_reply, ext_reply, pubfile;
	KSI_Signature *sig = nullptr;
	uint64_t sig_time = 0;
	uint64_t n = 0;
	EndpointCfg async_cfg;
	int async_ep = -1, async_ep2 = -1, async_ep3 = -1;
};

static std::string E(int res, const char *step) { char b[64]; snprintf(b, sizeof b, "E:0x%x@%s", res, step); return b; }
#define CK(call, step) do { res = (call); if (res != KSI_OK) { out = E(res, step); goto done; } } while (0)

// --- the operations. Each returns "E:..." for an error or a canonical result string; it must release everything it created.

static std::string op_ctx_new(Env &) {
	KSI_CTX *c = nullptr;
	int res = KSI_CTX_new(&c);
	if (res != KSI_OK) return E(res, "ctx_new");
	KSI_CTX_free(c);
	return "OK";
}

static std::string op_parse_serialize(Env &e) {
	std::string out; int res; KSI_Signature *s = nullptr; unsigned char *raw = nullptr; size_t n = 0;
	CK(KSI_Signature_parse(e.ctx, (const unsigned char *)e.sig_bytes.data(), e.sig_bytes.size(), &s), "parse");
	CK(KSI_Signature_serialize(s, &raw, &n), "serialize");
	out = "OK:" + hex(digest(1, std::string((char *)raw, n)));
done:
	KSI_free(raw);
	KSI_Signature_free(s);
	return out;
}

static std::string op_clone(Env &e) {
	std::string out; int res; KSI_Signature *c = nullptr; unsigned char *raw = nullptr; size_t n = 0;
	CK(KSI_Signature_clone(e.sig, &c), "clone");
	CK(KSI_Signature_serialize(c, &raw, &n), "serialize");
	out = "OK:" + hex(digest(1, std::string((char *)raw, n)));
done:
	KSI_free(raw);
	KSI_Signature_free(c);
	return out;
}

static std::string op_verify_internal(Env &e) {
	KSI_DataHash *dh = sdk::hash_from_imprint(e.ctx, e.hash);
	if (!dh) return E(KSI_OUT_OF_MEMORY, "hash");
	int res = KSI_Signature_verifyWithPolicy(e.sig, dh, 0, KSI_VERIFICATION_POLICY_INTERNAL, NULL);
	KSI_DataHash_free(dh);
	return res == KSI_OK ? "OK" : E(res, "verify");
}

static std::string op_verify_wrong_doc(Env &e) {
	KSI_DataHash *dh = sdk::hash_from_imprint(e.ctx, imprint(1, "not the document"));
	if (!dh) return E(KSI_OUT_OF_MEMORY, "hash");
	int res = KSI_Signature_verifyWithPolicy(e.sig, dh, 0, KSI_VERIFICATION_POLICY_INTERNAL, NULL);
	KSI_DataHash_free(dh);
	// the fault-free outcome is a verification failure
	return res == KSI_VERIFICATION_FAILURE ? "FAIL-AS-EXPECTED" : res == KSI_OK ? "OK" : E(res, "verify");
}

static std::string op_verifier(Env &e) {
	std::string out; int res;
	KSI_VerificationContext vc; KSI_PolicyVerificationResult *pr = nullptr;
	res = KSI_VerificationContext_init(&vc, e.ctx);
	if (res != KSI_OK) return E(res, "vc_init");
	vc.signature = e.sig;
	CK(KSI_SignatureVerifier_verify(KSI_VERIFICATION_POLICY_INTERNAL, &vc, &pr), "verifier");
	out = "OK:" + std::to_string((int)pr->finalResult.resultCode) + ":" + std::to_string((int)pr->finalResult.errorCode);
done:
	KSI_PolicyVerificationResult_free(pr);
	vc.signature = NULL;
	KSI_VerificationContext_clean(&vc);
	return out;
}

// calendar-based verification against an extender that answers with an error status: the verdict is inconclusive and carries a
// status message (the only results that have one)
static std::string op_verify_calendar_ext_error(Env &e) {
	std::string out; int res;
	KSI_VerificationContext vc; KSI_PolicyVerificationResult *pr = nullptr;
	res = KSI_VerificationContext_init(&vc, e.ctx);
	if (res != KSI_OK) return E(res, "vc_init");
	vc.signature = e.sig;
	{
		CallEnv ce; ce.behav = B_STATUS_ERR; ce.subseed = 5;
		e.bw.arm(ce);
		res = KSI_SignatureVerifier_verify(KSI_VERIFICATION_POLICY_CALENDAR_BASED, &vc, &pr);
		e.bw.disarm();
	}
	if (res != KSI_OK) { out = E(res, "verifier"); goto done; }
	out = "OK:" + std::to_string((int)pr->finalResult.resultCode) + ":" + std::to_string((int)pr->finalResult.errorCode);
done:
	KSI_PolicyVerificationResult_free(pr);
	vc.signature = NULL;
	KSI_VerificationContext_clean(&vc);
	return out;
}

static std::string op_pdu_parse_aggr(Env &e) {
	KSI_AggregationPdu *pdu = nullptr;
	int res = KSI_AggregationPdu_parse(e.ctx, (const unsigned char *)e.aggr_reply.data(), e.aggr_reply.size(), &pdu);
	if (res != KSI_OK) return E(res, "parse");
	res = KSI_AggregationPdu_verify(pdu, e.bw.aggr.key.c_str());
	KSI_AggregationPdu_free(pdu);
	return res == KSI_OK ? "OK" : E(res, "verify");
}

static std::string op_pdu_parse_ext(Env &e) {
	KSI_ExtendPdu *pdu = nullptr;
	int res = KSI_ExtendPdu_parse(e.ctx, (const unsigned char *)e.ext_reply.data(), e.ext_reply.size(), &pdu);
	if (res != KSI_OK) return E(res, "parse");
	res = KSI_ExtendPdu_verify(pdu, e.bw.ext.key.c_str());
	KSI_ExtendPdu_free(pdu);
	return res == KSI_OK ? "OK" : E(res, "verify");
}

static std::string op_request_build(Env &e) {
	std::string out; int res;
	KSI_DataHash *dh = nullptr; KSI_AggregationReq *req = nullptr; KSI_AggregationPdu *pdu = nullptr; unsigned char *raw = nullptr; size_t n = 0;
	dh = sdk::hash_from_imprint(e.ctx, e.hash);
	if (!dh) return E(KSI_OUT_OF_MEMORY, "hash");
	CK(KSI_createSignRequest(e.ctx, dh, 3, &req), "createSignRequest");
	CK(KSI_AggregationReq_enclose(req, "anon", "anon", &pdu), "enclose");
	req = nullptr; // owned by the PDU now
	CK(KSI_AggregationPdu_serialize(pdu, &raw, &n), "serialize");
	{ ReqInfo ri; out = parse_request(std::string((char *)raw, n), "anon", ri) && ri.mac_ok && ri.hash == e.hash && ri.level == 3 ? "OK" : "WRONG-PDU"; }
done:
	KSI_free(raw);
	KSI_AggregationPdu_free(pdu);
	KSI_AggregationReq_free(req);
	KSI_DataHash_free(dh);
	return out;
}

static std::string sign_once(Env &e) {
	KSI_DataHash *dh = sdk::hash_from_imprint(e.ctx, e.hash);
	if (!dh) return E(KSI_OUT_OF_MEMORY, "hash");
	CallEnv ce; ce.subseed = 4242; ce.chunk = 97;
	e.bw.arm(ce);
	KSI_Signature *sig = nullptr;
	int res = KSI_Signature_signAggregated(e.ctx, dh, 1, &sig);
	e.bw.disarm();
	KSI_DataHash_free(dh);
	if (res != KSI_OK) return E(res, "sign");
	std::string bytes = sdk::serialize(sig);
	KSI_Signature_free(sig);
	SigView v; if (!parse_signature(bytes, v)) return bytes.empty() ? E(KSI_OUT_OF_MEMORY, "serialize") : "INVALID";
	SigFacts f = evaluate(v);
	return f.consistent && f.input_hash == e.hash && f.first_lc >= 1 ? "OK:valid" : "INVALID";
}

static std::string extend_once(Env &e) {
	CallEnv ce; ce.subseed = 77; ce.chunk = 211;
	e.bw.arm(ce);
	KSI_Signature *out = nullptr;
	int res = KSI_Signature_extendTo(e.sig, e.ctx, NULL, &out);
	e.bw.disarm();
	if (res != KSI_OK) return E(res, "extend");
	std::string bytes = sdk::serialize(out);
	KSI_Signature_free(out);
	SigView v; if (!parse_signature(bytes, v)) return bytes.empty() ? E(KSI_OUT_OF_MEMORY, "serialize") : "INVALID";
	SigFacts f = evaluate(v);
	return f.consistent && f.input_hash == e.hash && v.has_cal && v.cal.pub == e.bw.world.head() ? "OK:valid" : "INVALID";
}

static std::string op_treebuilder(Env &e) {
	std::string out; int res;
	KSI_TreeBuilder *b = nullptr; KSI_TreeLeafHandle *leaves[5] = {nullptr, nullptr, nullptr, nullptr, nullptr}; KSI_DataHash *hs[5] = {nullptr, nullptr, nullptr, nullptr, nullptr};
	KSI_AggregationHashChain *chain = nullptr; KSI_DataHash *root = nullptr; int lvl = 0;
	CK(KSI_TreeBuilder_new(e.ctx, KSI_HASHALG_SHA2_256, &b), "new");
	for (int i = 0; i < 5; i++) {
		hs[i] = sdk::hash_from_imprint(e.ctx, imprint(1, "leaf" + std::to_string(i)));
		if (!hs[i]) { out = E(KSI_OUT_OF_MEMORY, "hash"); goto done; }
		CK(KSI_TreeBuilder_addDataHash(b, hs[i], i == 2 ? 1 : 0, &leaves[i]), "add");
	}
	CK(KSI_TreeBuilder_close(b), "close");
	CK(KSI_TreeLeafHandle_getAggregationChain(leaves[3], &chain), "getchain");
	CK(KSI_AggregationHashChain_aggregate(chain, 0, &lvl, &root), "aggregate");
	out = "OK:" + hex(sdk::imprint_of(root)) + ":" + std::to_string(lvl);
done:
	KSI_DataHash_free(root);
	KSI_AggregationHashChain_free(chain);
	for (int i = 0; i < 5; i++) { KSI_TreeLeafHandle_free(leaves[i]); KSI_DataHash_free(hs[i]); }
	KSI_TreeBuilder_free(b);
	return out;
}


// 23 leaves leave four occupied stack slots (10111b) to be merged by close; two of the leaves are metadata leaves
static std::string op_treebuilder_big(Env &e) {
	std::string out; int res;
	const int N = 23;
	KSI_TreeBuilder *b = nullptr; KSI_TreeLeafHandle *leaves[N]; KSI_DataHash *hs[N]; KSI_MetaData *md[N];
	for (int i = 0; i < N; i++) { leaves[i] = nullptr; hs[i] = nullptr; md[i] = nullptr; }
	KSI_AggregationHashChain *chain = nullptr, *chain2 = nullptr; KSI_DataHash *root = nullptr, *root2 = nullptr; int lvl = 0, lvl2 = 0;
	CK(KSI_TreeBuilder_new(e.ctx, KSI_HASHALG_SHA2_256, &b), "new");
	for (int i = 0; i < N; i++) {
		if (i == 5 || i == 20) {
			KSI_Utf8String *u = nullptr;
			CK(KSI_MetaData_new(e.ctx, &md[i]), "md");
			CK(KSI_Utf8String_new(e.ctx, "client", 7, &u), "utf8");
			res = KSI_MetaData_setClientId(md[i], u); /* takes its own reference */
			KSI_Utf8String_free(u);
			if (res != KSI_OK) { out = E(res, "setClientId"); goto done; }
			CK(KSI_TreeBuilder_addMetaData(b, md[i], 0, &leaves[i]), "addmd");
		} else {
			hs[i] = sdk::hash_from_imprint(e.ctx, imprint(1, "bigleaf" + std::to_string(i)));
			if (!hs[i]) { out = E(KSI_OUT_OF_MEMORY, "hash"); goto done; }
			CK(KSI_TreeBuilder_addDataHash(b, hs[i], 0, &leaves[i]), "add");
		}
	}
	CK(KSI_TreeBuilder_close(b), "close");
	CK(KSI_TreeLeafHandle_getAggregationChain(leaves[4], &chain), "getchain");
	CK(KSI_AggregationHashChain_aggregate(chain, 0, &lvl, &root), "aggregate");
	CK(KSI_TreeLeafHandle_getAggregationChain(leaves[22], &chain2), "getchain2");
	CK(KSI_AggregationHashChain_aggregate(chain2, 0, &lvl2, &root2), "aggregate2");
	out = "OK:" + hex(sdk::imprint_of(root)) + ":" + std::to_string(lvl) + ":" + hex(sdk::imprint_of(root2)) + ":" + std::to_string(lvl2);
done:
	KSI_DataHash_free(root); KSI_DataHash_free(root2);
	KSI_AggregationHashChain_free(chain); KSI_AggregationHashChain_free(chain2);
	for (int i = 0; i < N; i++) { KSI_TreeLeafHandle_free(leaves[i]); KSI_DataHash_free(hs[i]); KSI_MetaData_free(md[i]); }
	KSI_TreeBuilder_free(b);
	return out;
}

static std::string op_blocksigner(Env &e) {
	std::string out; int res;
	KSI_BlockSigner *bs = nullptr; KSI_BlockSignerHandle *h[3] = {nullptr, nullptr, nullptr}; KSI_DataHash *hs[3] = {nullptr, nullptr, nullptr}; KSI_Signature *sig = nullptr;
	KSI_OctetString *iv = nullptr; KSI_DataHash *zero = nullptr;
	CK(KSI_OctetString_new(e.ctx, (const unsigned char *)"0123456789abcdef0123456789abcdef", 32, &iv), "iv");
	CK(KSI_DataHash_createZero(e.ctx, KSI_HASHALG_SHA2_256, &zero), "zero");
	CK(KSI_BlockSigner_new(e.ctx, KSI_HASHALG_SHA2_256, zero, iv, &bs), "new");
	for (int i = 0; i < 3; i++) {
		hs[i] = sdk::hash_from_imprint(e.ctx, imprint(1, "bsleaf" + std::to_string(i)));
		if (!hs[i]) { out = E(KSI_OUT_OF_MEMORY, "hash"); goto done; }
		CK(KSI_BlockSigner_addLeaf(bs, hs[i], 0, NULL, &h[i]), "add");
	}
	{
		CallEnv ce; ce.subseed = 99; e.bw.arm(ce);
		res = KSI_BlockSigner_closeAndSign(bs);
		e.bw.disarm();
		if (res != KSI_OK) { out = E(res, "closeAndSign"); goto done; }
	}
	CK(KSI_BlockSignerHandle_getSignature(h[1], &sig), "getSignature");
	{
		std::string bytes = sdk::serialize(sig);
		SigView v; SigFacts f;
		if (parse_signature(bytes, v)) f = evaluate(v);
		out = f.consistent && f.input_hash == imprint(1, "bsleaf1") ? "OK:valid" : bytes.empty() ? E(KSI_OUT_OF_MEMORY, "serialize") : "INVALID";
	}
done:
	KSI_Signature_free(sig);
	for (int i = 0; i < 3; i++) { KSI_BlockSignerHandle_free(h[i]); KSI_DataHash_free(hs[i]); }
	KSI_BlockSigner_free(bs);
	KSI_DataHash_free(zero);
	KSI_OctetString_free(iv);
	return out;
}

// the asynchronous service: add k requests, serve them honestly, drain.  Returns the multiset of final states.
static void serve_async(Env &e, int ep, const EndpointCfg &cfg) {
	for (auto &cp : N.conns) {
		Conn &c = *cp;
		if (c.ep != ep || c.st != Conn::ESTABLISHED) continue;
		for (;;) {
			std::string av = N.srv_peek(c);
			size_t fl = frame_len(av, 0);
			if (fl == 0 || fl > av.size()) break;
			ReqInfo ri; parse_request(N.srv_take(c, fl), cfg.key, ri);
			ReplyMeta m;
			N.srv_write(c, e.bw.world.aggr_reply(ri, cfg, B_HONEST, 5 + ri.id, m));
		}
		N.deliver(c, 0);
	}
}

static std::string async_roundtrip(Env &e, bool ha) {
	std::string out; int res;
	KSI_AsyncService *svc = nullptr;
	KSI_AsyncHandle *pending[4] = {nullptr, nullptr, nullptr, nullptr}; // created but not (yet) accepted: still ours
	int accepted = 0, responses = 0, errors = 0, returned = 0, sigs = 0, fired_round = -1, late_error = 0;
	std::string uri1 = "ksi+tcp://async1.sim:4001", uri2 = "ksi+tcp://async2.sim:4002";
	CK(ha ? KSI_SigningHighAvailabilityService_new(e.ctx, &svc) : KSI_SigningAsyncService_new(e.ctx, &svc), "service_new");
	if (ha) {
		CK(KSI_AsyncService_addEndpoint(svc, uri1.c_str(), e.async_cfg.login.c_str(), e.async_cfg.key.c_str()), "addEndpoint");
		CK(KSI_AsyncService_addEndpoint(svc, uri2.c_str(), e.async_cfg.login.c_str(), e.async_cfg.key.c_str()), "addEndpoint2");
	} else CK(KSI_AsyncService_setEndpoint(svc, uri1.c_str(), e.async_cfg.login.c_str(), e.async_cfg.key.c_str()), "setEndpoint");
	CK(KSI_AsyncService_setOption(svc, KSI_ASYNC_OPT_REQUEST_CACHE_SIZE, (void *)4), "cache");
	CK(KSI_AsyncService_setOption(svc, KSI_ASYNC_OPT_MAX_REQUEST_COUNT, (void *)100), "maxreq");
	for (int i = 0; i < 3; i++) {
		KSI_DataHash *dh = sdk::hash_from_imprint(e.ctx, imprint(1, "async-doc" + std::to_string(i)));
		if (!dh) { out = E(KSI_OUT_OF_MEMORY, "hash"); goto done; }
		res = KSI_AsyncSigningHandle_new(e.ctx, dh, 0, &pending[i]);
		if (res != KSI_OK) { KSI_DataHash_free(dh); out = E(res, "handle_new"); goto done; }
		res = KSI_AsyncService_addRequest(svc, pending[i]);
		if (res != KSI_OK) { out = E(res, "addRequest"); goto done; }
		pending[i] = nullptr; // owned by the service
		accepted++;
	}
	for (int round = 0; round < 120 && returned < accepted; round++) {   // 36 s: well beyond the 10 s send and receive timeouts of every sub-request
		KSI_AsyncHandle *h = nullptr; size_t waiting = 0;
		uint64_t fired0 = A.fired;
		res = KSI_AsyncService_run(svc, &h, &waiting);
		if (A.fired > fired0) fired_round = round;
		if (res != KSI_OK) { out = E(res, "run"); goto done; }
		if (h) {
			int st = 0; KSI_AsyncHandle_getState(h, &st);
			if (st == KSI_ASYNC_STATE_RESPONSE_RECEIVED) {
				responses++; returned++;
				KSI_Signature *s = nullptr;
				uint64_t f1 = A.fired;
				if (KSI_AsyncHandle_getSignature(h, &s) == KSI_OK) { sigs++; KSI_Signature_free(s); }
				else if (A.fired == f1 && fired_round >= 0 && round - fired_round > 1) late_error = KSI_UNKNOWN_ERROR;
			} else if (st == KSI_ASYNC_STATE_ERROR) {
				errors++; returned++;
				// a failure that no call reported when the allocation failed, and that surfaces only (much) later as a request error
				int herr = 0; KSI_AsyncHandle_getError(h, &herr);
				if (herr != KSI_OUT_OF_MEMORY && fired_round >= 0 && round - fired_round > 2) late_error = herr;
			}
			KSI_AsyncHandle_free(h);
		} else {
			K.advance(300);
			serve_async(e, e.async_ep, e.async_cfg);
			if (ha) serve_async(e, e.async_ep2, e.async_cfg);
		}
	}
	// C13 identity after the fault: everything accepted was handed back exactly once
	if (returned != accepted) out = "LOST:" + std::to_string(accepted - returned);
	else if (late_error && !ha) { char b[64]; snprintf(b, sizeof b, "SWALLOWED:0x%x", late_error); out = b; }
	else if (errors || sigs != responses) out = "E:request-level-error:" + std::to_string(errors) + "e" + std::to_string(responses - sigs) + "nosig"; // the failure surfaced through a handle
	else out = "OK:" + std::to_string(responses) + "r" + std::to_string(sigs) + "s";
done:
	for (auto *p : pending) if (p) KSI_AsyncHandle_free(p);
	KSI_AsyncService_free(svc);
	return out;
}

// the asynchronous service over HTTP: three requests one after the other (the transport recycles its transfer object), the body
// of every reply handed to the client in pieces of 200 bytes (the receive buffer grows while a reply arrives)
static std::string async_http_sequence(Env &e) {
	std::string out; int res;
	KSI_AsyncService *svc = nullptr;
	KSI_AsyncHandle *mine = nullptr;
	int responses = 0, errors = 0, sigs = 0, lost = 0;
	C.write_cut = 200;
	CK(KSI_SigningAsyncService_new(e.ctx, &svc), "service_new");
	CK(KSI_AsyncService_setEndpoint(svc, "ksi+http://async3.sim:8080/sign", e.async_cfg.login.c_str(), e.async_cfg.key.c_str()), "setEndpoint");
	CK(KSI_AsyncService_setOption(svc, KSI_ASYNC_OPT_REQUEST_CACHE_SIZE, (void *)4), "cache");
	CK(KSI_AsyncService_setOption(svc, KSI_ASYNC_OPT_RCV_TIMEOUT, (void *)2), "rcv_to");
	CK(KSI_AsyncService_setOption(svc, KSI_ASYNC_OPT_SND_TIMEOUT, (void *)2), "snd_to");
	for (int i = 0; i < 3; i++) {
		KSI_DataHash *dh = sdk::hash_from_imprint(e.ctx, imprint(1, "async-http-doc" + std::to_string(i)));
		if (!dh) { out = E(KSI_OUT_OF_MEMORY, "hash"); goto done; }
		res = KSI_AsyncSigningHandle_new(e.ctx, dh, 0, &mine);
		if (res != KSI_OK) { KSI_DataHash_free(dh); out = E(res, "handle_new"); goto done; }
		res = KSI_AsyncService_addRequest(svc, mine);
		if (res != KSI_OK) { out = E(res, "addRequest"); goto done; }
		mine = nullptr; // owned by the service
		bool back = false;
		for (int round = 0; round < 40 && !back; round++) {
			KSI_AsyncHandle *h = nullptr; size_t waiting = 0;
			res = KSI_AsyncService_run(svc, &h, &waiting);
			if (res != KSI_OK) { out = E(res, "run"); goto done; }
			if (h) {
				int st = 0; KSI_AsyncHandle_getState(h, &st);
				if (st == KSI_ASYNC_STATE_RESPONSE_RECEIVED) {
					responses++;
					KSI_Signature *s = nullptr;
					if (KSI_AsyncHandle_getSignature(h, &s) == KSI_OK) { sigs++; KSI_Signature_free(s); }
				} else errors++;
				KSI_AsyncHandle_free(h);
				back = true;
			} else {
				K.advance(300);
				for (auto &xp : C.xfers) {
					Xfer &x = *xp;
					if (x.ep != e.async_ep3 || x.st != Xfer::SENT) continue;
					if (!x.responded) {
						ReqInfo ri; parse_request(x.req_body, e.async_cfg.key, ri);
						ReplyMeta m;
						C.respond(x, 200, e.bw.world.aggr_reply(ri, e.async_cfg, B_HONEST, 5 + ri.id, m));
					}
					C.deliver(x, 0);
				}
			}
		}
		if (!back) lost++;
	}
	if (lost) out = "LOST:" + std::to_string(lost);
	else if (errors || sigs != responses) out = "E:request-level-error:" + std::to_string(errors) + "e" + std::to_string(responses - sigs) + "nosig";
	else out = "OK:" + std::to_string(responses) + "r" + std::to_string(sigs) + "s";
done:
	C.write_cut = 0;
	if (mine) KSI_AsyncHandle_free(mine);
	KSI_AsyncService_free(svc);
	return out;
}

static std::string op_cache_grow(Env &e) {
	std::string out; int res; KSI_AsyncService *svc = nullptr; size_t v = 0;
	CK(KSI_SigningAsyncService_new(e.ctx, &svc), "service_new");
	CK(KSI_AsyncService_setEndpoint(svc, "ksi+tcp://async1.sim:4001", "u", "k"), "setEndpoint");
	CK(KSI_AsyncService_setOption(svc, KSI_ASYNC_OPT_REQUEST_CACHE_SIZE, (void *)8), "grow8");
	CK(KSI_AsyncService_setOption(svc, KSI_ASYNC_OPT_REQUEST_CACHE_SIZE, (void *)64), "grow64");
	CK(KSI_AsyncService_getOption(svc, KSI_ASYNC_OPT_REQUEST_CACHE_SIZE, (void *)&v), "get");
	out = "OK:" + std::to_string(v);
done:
	KSI_AsyncService_free(svc);
	return out;
}

static std::string op_identity(Env &e) {
	std::string out; int res; KSI_HashChainLinkIdentityList *il = nullptr; char buf[2048];
	CK(KSI_Signature_getAggregationHashChainIdentity(e.sig, &il), "identity");
	out = "OK:" + std::to_string(KSI_HashChainLinkIdentityList_length(il));
	{
		KSI_DataHash *dh = nullptr;
		if (KSI_Signature_getDocumentHash(e.sig, &dh) != KSI_OK || KSI_DataHash_toString(dh, buf, sizeof buf) == NULL) out = E(KSI_OUT_OF_MEMORY, "toString");
	}
done:
	KSI_HashChainLinkIdentityList_free(il);
	return out;
}

static std::string op_pubfile_parse(Env &e) {
	if (e.pubfile.empty()) return "SKIP";
	std::string out; int res; KSI_PublicationsFile *pf = nullptr; KSI_PublicationRecord *pr = nullptr; char *s = nullptr;
	CK(KSI_PublicationsFile_parse(e.ctx, e.pubfile.data(), e.pubfile.size(), &pf), "parse");
	CK(KSI_PublicationsFile_getLatestPublication(pf, NULL, &pr), "latest");
	{
		KSI_PublicationData *pd = nullptr;
		CK(KSI_PublicationRecord_getPublishedData(pr, &pd), "pubdata");
		CK(KSI_PublicationData_toBase32(pd, &s), "base32");
		out = std::string("OK:") + s;
	}
done:
	KSI_free(s);
	KSI_PublicationsFile_free(pf); /* the record belongs to the file */
	return out;
}

// two levels of local aggregation prepended one after the other to a signature of the outer root (leaves above level 0): the
// second append works on a signature whose first aggregation chain is no longer the lowest one
static std::string op_prepend_twice(Env &e) {
	std::string out; int res;
	KSI_TreeBuilder *ta = nullptr, *tb = nullptr;
	KSI_TreeLeafHandle *ha[2] = {nullptr, nullptr}, *hb[2] = {nullptr, nullptr};
	KSI_AggregationHashChain *ca = nullptr, *cb = nullptr;
	KSI_Signature *s0 = nullptr, *s1 = nullptr, *s2 = nullptr;
	KSI_SignatureBuilder *sb = nullptr;
	KSI_DataHash *dh = nullptr, *doc = nullptr;
	std::string ra, rb; int la = 0, lb = 0;
	const std::string docimp = imprint(1, "prepend-twice-doc");
	CK(KSI_TreeBuilder_new(e.ctx, KSI_HASHALG_SHA2_256, &ta), "treeA");
	for (int i = 0; i < 2; i++) {
		dh = sdk::hash_from_imprint(e.ctx, i == 0 ? docimp : imprint(1, "prepend-twice-neighbour-a"));
		if (!dh) { out = E(KSI_OUT_OF_MEMORY, "hash"); goto done; }
		res = KSI_TreeBuilder_addDataHash(ta, dh, 1, &ha[i]);
		KSI_DataHash_free(dh); dh = nullptr;
		if (res != KSI_OK) { out = E(res, "addA"); goto done; }
	}
	CK(KSI_TreeBuilder_close(ta), "closeA");
	ra = sdk::imprint_of(ta->rootNode->hash); la = (int)ta->rootNode->level;
	CK(KSI_TreeBuilder_new(e.ctx, KSI_HASHALG_SHA2_256, &tb), "treeB");
	for (int i = 0; i < 2; i++) {
		dh = sdk::hash_from_imprint(e.ctx, i == 0 ? ra : imprint(1, "prepend-twice-neighbour-b"));
		if (!dh) { out = E(KSI_OUT_OF_MEMORY, "hash"); goto done; }
		res = KSI_TreeBuilder_addDataHash(tb, dh, i == 0 ? la : 0, &hb[i]);
		KSI_DataHash_free(dh); dh = nullptr;
		if (res != KSI_OK) { out = E(res, "addB"); goto done; }
	}
	CK(KSI_TreeBuilder_close(tb), "closeB");
	rb = sdk::imprint_of(tb->rootNode->hash); lb = (int)tb->rootNode->level;
	if (ra.empty() || rb.empty()) { out = E(KSI_OUT_OF_MEMORY, "root"); goto done; }
	{
		// the aggregator's signature of the outer root (made by the reference world, not by the SDK)
		World w2 = e.bw.world; ReplyMeta m;
		std::string bytes = w2.make_signature(rb, (uint64_t)lb, 4242, true, m, 2);
		CK(KSI_Signature_parse(e.ctx, (unsigned char *)bytes.data(), bytes.size(), &s0), "parse");
	}
	CK(KSI_TreeLeafHandle_getAggregationChain(hb[0], &cb), "chainB");
	CK(KSI_SignatureBuilder_openFromSignature(s0, &sb), "open1");
	CK(KSI_SignatureBuilder_setAggregationChainStartLevel(sb, (KSI_uint64_t)la), "start1");
	CK(KSI_SignatureBuilder_appendAggregationChain(sb, cb), "append1");
	CK(KSI_SignatureBuilder_close(sb, (KSI_uint64_t)la, &s1), "close1");
	KSI_SignatureBuilder_free(sb); sb = nullptr;
	CK(KSI_TreeLeafHandle_getAggregationChain(ha[0], &ca), "chainA");
	CK(KSI_SignatureBuilder_openFromSignature(s1, &sb), "open2");
	CK(KSI_SignatureBuilder_setAggregationChainStartLevel(sb, 1), "start2");
	CK(KSI_SignatureBuilder_appendAggregationChain(sb, ca), "append2");
	CK(KSI_SignatureBuilder_close(sb, 1, &s2), "close2");
	doc = sdk::hash_from_imprint(e.ctx, docimp);
	if (!doc) { out = E(KSI_OUT_OF_MEMORY, "hash"); goto done; }
	CK(KSI_Signature_verifyWithPolicy(s2, doc, 1, KSI_VERIFICATION_POLICY_INTERNAL, NULL), "verify");
	{
		std::string bytes = sdk::serialize(s2);
		SigView v; SigFacts f;
		if (!bytes.empty() && parse_signature(bytes, v)) f = evaluate(v);
		out = bytes.empty() ? E(KSI_OUT_OF_MEMORY, "serialize") : f.consistent && f.input_hash == docimp && v.agg.size() >= 3 ? "OK:valid:" + std::to_string(v.agg.size()) : "INVALID";
	}
done:
	KSI_DataHash_free(dh); KSI_DataHash_free(doc);
	KSI_SignatureBuilder_free(sb);
	KSI_Signature_free(s0); KSI_Signature_free(s1); KSI_Signature_free(s2);
	KSI_AggregationHashChain_free(ca); KSI_AggregationHashChain_free(cb);
	for (int i = 0; i < 2; i++) { KSI_TreeLeafHandle_free(ha[i]); KSI_TreeLeafHandle_free(hb[i]); }
	KSI_TreeBuilder_free(ta); KSI_TreeBuilder_free(tb);
	return out;
}

// extending to a publication record (KSI_Signature_extend): the record is put into the extended signature
static std::string extend_to_publication_once(Env &e) {
	std::string out; int res;
	KSI_PublicationData *pd = nullptr; KSI_PublicationRecord *prec = nullptr; KSI_Integer *t = nullptr; KSI_DataHash *rh = nullptr;
	KSI_Signature *ext = nullptr;
	uint64_t pub = e.bw.world.head();
	CK(KSI_PublicationData_new(e.ctx, &pd), "pubdata");
	CK(KSI_Integer_new(e.ctx, pub, &t), "int");
	CK(KSI_PublicationData_setTime(pd, t), "settime"); t = nullptr;
	rh = sdk::hash_from_imprint(e.ctx, e.bw.world.cal.root(pub));
	if (!rh) { out = E(KSI_OUT_OF_MEMORY, "hash"); goto done; }
	CK(KSI_PublicationData_setImprint(pd, rh), "setimprint"); rh = nullptr;
	CK(KSI_PublicationRecord_new(e.ctx, &prec), "pubrec");
	CK(KSI_PublicationRecord_setPublishedData(prec, pd), "setdata"); pd = nullptr;
	{
		CallEnv ce; ce.subseed = 78; ce.chunk = 197;
		e.bw.arm(ce);
		res = KSI_Signature_extend(e.sig, e.ctx, prec, &ext);
		e.bw.disarm();
		if (res != KSI_OK) { out = E(res, "extend"); goto done; }
		std::string bytes = sdk::serialize(ext);
		SigView v; SigFacts f;
		if (!bytes.empty() && parse_signature(bytes, v)) f = evaluate(v);
		out = bytes.empty() ? E(KSI_OUT_OF_MEMORY, "serialize") : f.consistent && f.input_hash == e.hash && v.has_cal && v.cal.pub == pub && v.has_pub ? "OK:valid" : "INVALID";
	}
done:
	KSI_Signature_free(ext);
	KSI_PublicationRecord_free(prec); KSI_PublicationData_free(pd); KSI_Integer_free(t); KSI_DataHash_free(rh);
	return out;
}

// a signature whose calendar chain changes the hash algorithm in the middle (a SHA-512 round root among the right siblings):
// parsing verifies it internally, which folds the calendar chain and has to replace its hasher at the second link
static std::string op_calendar_algorithm_change(Env &e) {
	std::string out; int res;
	KSI_Signature *s = nullptr; KSI_DataHash *doc = nullptr;
	World w2 = e.bw.world; ReplyMeta m;
	const std::string docimp = imprint(1, "calendar-algorithm-change-doc");
	w2.next_round = (w2.next_round + 3) & ~(uint64_t)3;
	uint64_t t = w2.next_round;
	std::string bytes = w2.make_signature(docimp, 0, 555, false, m);
	w2.cal.set_leaf(t + 3, imprint(5, "a SHA-512 round root"));
	CalChain cc = w2.cal.chain(t, t + 3);
	Tlv top; size_t u;
	if (!Tlv::parse1(bytes, 0, top, u) || !top.expand()) return "HARNESS";
	top.add(cc.enc());
	bytes = top.enc();
	CK(KSI_Signature_parse(e.ctx, (unsigned char *)bytes.data(), bytes.size(), &s), "parse");
	doc = sdk::hash_from_imprint(e.ctx, docimp);
	if (!doc) { out = E(KSI_OUT_OF_MEMORY, "hash"); goto done; }
	CK(KSI_Signature_verifyWithPolicy(s, doc, 0, KSI_VERIFICATION_POLICY_INTERNAL, NULL), "verify");
	out = sdk::serialize(s) == bytes ? "OK:verified" : "E:serialize";
done:
	KSI_DataHash_free(doc);
	KSI_Signature_free(s);
	return out;
}

// ---- operations around the trust anchors: publications file, PKI, user publication, authentication record

// a publications file of this world (publication at the calendar head), signed by the fixture signer; the context gets a trust store
// with the fixture CA only and the certificate constraint of the fixture signer. Part of the operation (so its allocations are swept).
static int trust_setup(Env &e, uint64_t *pub_out) {
	uint64_t P = e.bw.world.head();
	static std::map<uint64_t, std::string> cache;
	std::string &pf = cache[P];
	if (pf.empty()) {
		std::vector<const Pki *> certs = {&pki("auth_valid"), &pki("auth_expired")};
		std::vector<PubEntry> pubs = {{P, e.bw.world.cal.root(P)}};
		pf = build_pubfile(certs, pubs, pki("pubsigner"), 1599999000);
	}
	e.bw.pubfile_bytes = pf;
	e.bw.pub_http_code = 200;
	if (pub_out) *pub_out = P;
	KSI_PKITruststore *ts = nullptr;
	int res = KSI_PKITruststore_new(e.ctx, 0, &ts);
	if (res != KSI_OK) return res;
	res = KSI_PKITruststore_addLookupFile(ts, (fixtures_dir() + "/ca.pem").c_str());
	if (res == KSI_OK) res = KSI_CTX_setPKITruststore(e.ctx, ts);
	if (res != KSI_OK) { KSI_PKITruststore_free(ts); return res; }
	static const KSI_CertConstraint cons[] = {{KSI_CERT_EMAIL, (char *)"publications@sim.test"}, {NULL, NULL}};
	return KSI_CTX_setDefaultPubFileCertConstraints(e.ctx, cons);
}

static std::string op_receive_pubfile(Env &e) {
	std::string out; int res; KSI_PublicationsFile *pf = nullptr; KSI_PublicationRecord *pr = nullptr;
	CallEnv ce; ce.subseed = 5;
	CK(trust_setup(e, nullptr), "trust_setup");
	e.bw.arm(ce);
	res = KSI_receivePublicationsFile(e.ctx, &pf);
	e.bw.disarm();
	if (res != KSI_OK) { out = E(res, "receive"); goto done; }
	CK(KSI_verifyPublicationsFile(e.ctx, pf), "verify");
	CK(KSI_PublicationsFile_getLatestPublication(pf, NULL, &pr), "latest");
	out = pr ? "OK:verified" : "INVALID";
done:
	KSI_PublicationsFile_free(pf);
	return out;
}

static std::string op_extend_to_pubfile(Env &e) {
	std::string out; int res; KSI_Signature *ext = nullptr; uint64_t P = 0;
	KSI_DataHash *ph = nullptr; KSI_Utf8String *ps = nullptr; time_t pd = 0; KSI_LIST(KSI_Utf8String) *refs = nullptr, *urls = nullptr;
	CallEnv ce; ce.subseed = 6; ce.chunk = 300;
	CK(trust_setup(e, &P), "trust_setup");
	e.bw.arm(ce);
	res = KSI_extendSignature(e.ctx, e.sig, &ext);
	e.bw.disarm();
	if (res != KSI_OK) { out = E(res, "extendSignature"); goto done; }
	CK(KSI_Signature_getPublicationInfo(ext, &ph, &ps, &pd, &refs, &urls), "pubinfo");
	{
		std::string bytes = sdk::serialize(ext);
		SigView v; SigFacts f;
		if (!bytes.empty() && parse_signature(bytes, v)) f = evaluate(v);
		out = bytes.empty() ? E(KSI_OUT_OF_MEMORY, "serialize") : f.consistent && f.input_hash == e.hash && v.has_cal && v.cal.pub == P && v.has_pub && (uint64_t)pd == P && sdk::imprint_of(ph) == e.bw.world.cal.root(P) ? "OK:valid" : "INVALID";
	}
done:
	KSI_DataHash_free(ph); KSI_Utf8String_free(ps); KSI_Utf8StringList_free(refs); KSI_Utf8StringList_free(urls);
	KSI_Signature_free(ext);
	return out;
}

static std::string verify_with(Env &e, KSI_Signature *sig, const KSI_Policy *pol, bool extending, bool user_pub, uint64_t P) {
	std::string out; int res;
	KSI_VerificationContext vc; KSI_PolicyVerificationResult *pr = nullptr; KSI_PublicationData *pd = nullptr; KSI_Integer *t = nullptr; KSI_DataHash *rh = nullptr, *doc = nullptr;
	bool inited = false;
	CallEnv ce; ce.subseed = 9;
	CK(KSI_VerificationContext_init(&vc, e.ctx), "vc_init"); inited = true;
	vc.signature = sig;
	vc.extendingAllowed = extending;
	doc = sdk::hash_from_imprint(e.ctx, e.hash);
	if (!doc) { out = E(KSI_OUT_OF_MEMORY, "hash"); goto done; }
	vc.documentHash = doc;
	if (user_pub) {
		CK(KSI_PublicationData_new(e.ctx, &pd), "pubdata");
		CK(KSI_Integer_new(e.ctx, P, &t), "int");
		CK(KSI_PublicationData_setTime(pd, t), "settime"); t = nullptr;
		rh = sdk::hash_from_imprint(e.ctx, e.bw.world.cal.root(P));
		if (!rh) { out = E(KSI_OUT_OF_MEMORY, "hash"); goto done; }
		CK(KSI_PublicationData_setImprint(pd, rh), "setimprint"); rh = nullptr;
		vc.userPublication = pd;
	}
	e.bw.arm(ce);
	res = KSI_SignatureVerifier_verify(pol, &vc, &pr);
	e.bw.disarm();
	if (res != KSI_OK) { out = E(res, "verify"); goto done; }
	// the verifier reports an internal error of a rule (here: out of memory) as an inconclusive result with the code GEN-2 and
	// returns KSI_OK: that is its documented way of returning the error (never OK, never FAIL)
	if (pr->finalResult.resultCode == KSI_VER_RES_NA && pr->finalResult.errorCode == KSI_VER_ERR_GEN_2) out = "E:NA/GEN-2@verify";
	else { char b[64]; snprintf(b, sizeof b, "OK:rc=%d:ec=0x%x", (int)pr->finalResult.resultCode, (int)pr->finalResult.errorCode); out = b; }
done:
	KSI_PolicyVerificationResult_free(pr);
	if (inited) { vc.signature = NULL; vc.documentHash = NULL; vc.userPublication = NULL; KSI_VerificationContext_clean(&vc); }
	KSI_PublicationData_free(pd); KSI_Integer_free(t); KSI_DataHash_free(rh); KSI_DataHash_free(doc);
	return out;
}

static std::string op_verify_general(Env &e) {
	uint64_t P = 0; int res = trust_setup(e, &P);
	if (res != KSI_OK) return E(res, "trust_setup");
	return verify_with(e, e.sig, KSI_VERIFICATION_POLICY_GENERAL, true, false, P);
}
static std::string op_verify_user_pub(Env &e) {
	uint64_t P = e.bw.world.head();
	return verify_with(e, e.sig, KSI_VERIFICATION_POLICY_USER_PUBLICATION_BASED, true, true, P);
}
static std::string op_verify_pubfile(Env &e) {
	uint64_t P = 0; int res = trust_setup(e, &P);
	if (res != KSI_OK) return E(res, "trust_setup");
	return verify_with(e, e.sig, KSI_VERIFICATION_POLICY_PUBLICATIONS_FILE_BASED, true, false, P);
}
// key-based: the signature gets a calendar authentication record signed with the fixture key whose certificate the file lists
static std::string op_verify_key_based(Env &e) {
	std::string out; int res; KSI_Signature *s = nullptr; uint64_t P = 0;
	Tlv top; size_t u; SigView v;
	if (!Tlv::parse1(e.sig_bytes, 0, top, u) || !top.expand() || !parse_signature(e.sig_bytes, v) || !v.has_cal) return "HARNESS";
	{
		Tlv pd = Tlv::nest(0x10, {Tlv::u64(0x02, v.cal.pub), Tlv::raw(0x04, v.cal.fold())});
		static std::map<std::string, std::string> cache;
		std::string &sg = cache[pd.enc()];
		if (sg.empty()) rsa_sha256_sign(pki("auth_valid"), pd.enc(), sg);
		top.add(Tlv::nest(0x0805, {pd, Tlv::nest(0x0b, {Tlv::str(0x01, "1.2.840.113549.1.1.11"), Tlv::raw(0x02, sg), Tlv::raw(0x03, pki("auth_valid").cert_id)})}));
	}
	std::string bytes = top.enc();
	CK(trust_setup(e, &P), "trust_setup");
	CK(KSI_Signature_parse(e.ctx, (unsigned char *)bytes.data(), bytes.size(), &s), "parse");
	out = verify_with(e, s, KSI_VERIFICATION_POLICY_KEY_BASED, false, false, P);
done:
	KSI_Signature_free(s);
	return out;
}

static std::string op_receive_configs(Env &e) {
	std::string out; int res; KSI_Config *ca = nullptr, *cx = nullptr;
	CallEnv ce; ce.subseed = 21;
	e.bw.arm(ce);
	res = KSI_receiveAggregatorConfig(e.ctx, &ca);
	e.bw.disarm();
	if (res != KSI_OK) { out = E(res, "aggr_config"); goto done; }
	ce.subseed = 22;
	e.bw.arm(ce);
	res = KSI_receiveExtenderConfig(e.ctx, &cx);
	e.bw.disarm();
	if (res != KSI_OK) { out = E(res, "ext_config"); goto done; }
	{
		KSI_Integer *ml = nullptr, *cf = nullptr;
		if (!ca || !cx || KSI_Config_getMaxLevel(ca, &ml) != KSI_OK || KSI_Config_getCalendarFirstTime(cx, &cf) != KSI_OK || !ml || !cf) out = "INVALID";
		else out = "OK:" + std::to_string(KSI_Integer_getUInt64(ml)) + ":" + std::to_string(KSI_Integer_getUInt64(cf));
	}
done:
	KSI_Config_free(ca); KSI_Config_free(cx);
	return out;
}

// publication strings: publication data -> base32 -> publication data
static std::string op_pub_base32(Env &e) {
	std::string out; int res; KSI_PublicationData *pd = nullptr, *back = nullptr; KSI_Integer *t = nullptr; KSI_DataHash *rh = nullptr; char *str = nullptr;
	uint64_t P = e.bw.world.head();
	CK(KSI_PublicationData_new(e.ctx, &pd), "pubdata");
	CK(KSI_Integer_new(e.ctx, P, &t), "int");
	CK(KSI_PublicationData_setTime(pd, t), "settime"); t = nullptr;
	rh = sdk::hash_from_imprint(e.ctx, e.bw.world.cal.root(P));
	if (!rh) { out = E(KSI_OUT_OF_MEMORY, "hash"); goto done; }
	CK(KSI_PublicationData_setImprint(pd, rh), "setimprint"); rh = nullptr;
	CK(KSI_PublicationData_toBase32(pd, &str), "toBase32");
	CK(KSI_PublicationData_fromBase32(e.ctx, str, &back), "fromBase32");
	{
		KSI_Integer *bt = nullptr; KSI_DataHash *bh = nullptr;
		if (KSI_PublicationData_getTime(back, &bt) != KSI_OK || KSI_PublicationData_getImprint(back, &bh) != KSI_OK || !bt || !bh) out = "INVALID";
		else out = KSI_Integer_getUInt64(bt) == P && sdk::imprint_of(bh) == e.bw.world.cal.root(P) ? std::string("OK:") + str : "INVALID";
	}
done:
	KSI_free(str);
	KSI_PublicationData_free(pd); KSI_PublicationData_free(back); KSI_Integer_free(t); KSI_DataHash_free(rh);
	return out;
}

// the same blocking calls on a long-lived context: after 256 requests the request ids are no longer the context's shared
// small-integer objects. The warm-up is not part of the swept operation (no fault is injected in it, its allocations are not counted).
static void warm_unswept(Env &e) {
	uint64_t c0 = A.count; bool was = A.armed;
	A.armed = false;
	size_t s0 = e.bw.served.size();
	e.bw.warm_up(e.ctx, 256);
	if (e.bw.served.size() > s0) e.bw.served.resize(s0);
	A.count = c0; A.armed = was;
}
static std::string sign_after_warm_up(Env &e) { warm_unswept(e); return sign_once(e); }
static std::string extend_after_warm_up(Env &e) { warm_unswept(e); return extend_once(e); }

// C11 under allocation failure: a verification that fails half way (out of memory) changes neither the serialization nor the
// verdict of a later verification of the same object. The signature has a metadata link and is parsed without verification, so
// the first verification is the one that expands the link's record.
static std::string op_verify_twice_unexpanded(Env &e) {
	std::string out; int res; KSI_Signature *s = nullptr; KSI_DataHash *doc = nullptr;
	static std::string bytes, docimp;
	if (bytes.empty()) {
		for (uint64_t ss = 1; ss < 400 && bytes.empty(); ss++) {
			World w2 = e.bw.world; ReplyMeta m;
			std::string d = imprint(1, "metadata-link-doc-" + std::to_string(ss));
			std::string b = w2.make_signature(d, 0, 9000 + ss, true, m, 2);
			SigView v; if (!parse_signature(b, v)) continue;
			bool md = false;
			for (auto &c : v.agg) for (auto &l : c.links) if (l.kind == 2) md = true;
			if (md) { bytes = b; docimp = d; }
		}
		if (bytes.empty()) return "HARNESS";
	}
	CK(KSI_Signature_parseWithPolicy(e.ctx, (unsigned char *)bytes.data(), bytes.size(), KSI_VERIFICATION_POLICY_EMPTY, NULL, &s), "parse");
	doc = sdk::hash_from_imprint(e.ctx, docimp);
	if (!doc) { out = E(KSI_OUT_OF_MEMORY, "hash"); goto done; }
	{
		int v1 = KSI_Signature_verifyWithPolicy(s, doc, 0, KSI_VERIFICATION_POLICY_INTERNAL, NULL);
		uint64_t f0 = A.fired;
		int v2 = KSI_Signature_verifyWithPolicy(s, doc, 0, KSI_VERIFICATION_POLICY_INTERNAL, NULL);
		bool fault_in_v2 = A.fired > f0;
		uint64_t f1 = A.fired;
		std::string ser = sdk::serialize(s);
		bool fault_in_ser = A.fired > f1;
		char b[96];
		if (!fault_in_ser && ser != bytes) out = "CHANGED:serialization-after-verification";
		else if (v2 != KSI_OK && !fault_in_v2) { snprintf(b, sizeof b, "CHANGED:later-verdict-0x%x-after-first-0x%x", v2, v1); out = b; }
		else if (v1 != KSI_OK) out = E(v1, "verify1");
		else if (v2 != KSI_OK) out = E(v2, "verify2");
		else if (fault_in_ser) out = E(KSI_OUT_OF_MEMORY, "serialize");
		else out = "OK:twice";
	}
done:
	KSI_DataHash_free(doc);
	KSI_Signature_free(s);
	return out;
}

// a legacy signature with an RFC 3161 record (the reference world cannot make one: taken from the repository's test resources)
static std::string op_verify_rfc3161(Env &e) {
	std::string out; int res; KSI_Signature *s = nullptr;
	static std::string bytes;
	if (bytes.empty()) {
		const char *repo = getenv("REPO");
		js::read_file(std::string(repo && *repo ? repo : "/repo") + "/test/resource/tlv/signature-with-rfc3161-record-ok.ksig", bytes);
		if (bytes.empty()) return "SKIP";
	}
	CK(KSI_Signature_parseWithPolicy(e.ctx, (unsigned char *)bytes.data(), bytes.size(), KSI_VERIFICATION_POLICY_EMPTY, NULL, &s), "parse");
	CK(KSI_Signature_verifyWithPolicy(s, NULL, 0, KSI_VERIFICATION_POLICY_INTERNAL, NULL), "verify");
	out = sdk::serialize(s) == bytes ? "OK:verified" : "E:serialize";
done:
	KSI_Signature_free(s);
	return out;
}

struct Case { const char *name; std::function<std::string(Env &)> op; };

static std::vector<Case> &catalogue() {
	static std::vector<Case> c = {
		{"ctx_new_free", op_ctx_new},
		{"signature_parse_serialize", op_parse_serialize},
		{"signature_clone", op_clone},
		{"verify_internal_with_document_hash", op_verify_internal},
		{"verify_internal_wrong_document", op_verify_wrong_doc},
		{"signature_verifier_internal_policy", op_verifier},
		{"aggregation_pdu_parse_verify", op_pdu_parse_aggr},
		{"extend_pdu_parse_verify", op_pdu_parse_ext},
		{"sign_request_build_enclose_serialize", op_request_build},
		{"sign_blocking", sign_once},
		{"extend_blocking", extend_once},
		{"tree_builder_5_leaves", op_treebuilder},
		{"block_signer_3_leaves_close_and_sign", op_blocksigner},
		{"async_service_3_requests_roundtrip", [](Env &e) { return async_roundtrip(e, false); }},
		{"ha_service_2_endpoints_roundtrip", [](Env &e) { return async_roundtrip(e, true); }},
		{"async_cache_size_growth", op_cache_grow},
		{"identity_and_to_string", op_identity},
		{"publications_file_parse_lookup", op_pubfile_parse},
		// appended later (stored replays address cases by index)
		{"tree_builder_23_leaves_with_metadata", op_treebuilder_big},
		{"verify_calendar_based_extender_error_status", op_verify_calendar_ext_error},
		{"async_http_service_3_requests_in_sequence", async_http_sequence},
		{"prepend_two_local_chains_with_levels", op_prepend_twice},
		{"extend_blocking_to_publication_record", extend_to_publication_once},
		{"verify_internal_calendar_algorithm_change", op_calendar_algorithm_change},
		{"receive_and_verify_publications_file", op_receive_pubfile},
		{"extend_signature_to_publications_file", op_extend_to_pubfile},
		{"verify_general_policy_extending", op_verify_general},
		{"verify_user_publication_based_extending", op_verify_user_pub},
		{"verify_publications_file_based_extending", op_verify_pubfile},
		{"verify_key_based_authentication_record", op_verify_key_based},
		{"receive_aggregator_and_extender_config", op_receive_configs},
		{"publication_data_base32_roundtrip", op_pub_base32},
		{"sign_blocking_on_long_lived_context", sign_after_warm_up},
		{"extend_blocking_on_long_lived_context", extend_after_warm_up},
		{"verify_twice_unexpanded_metadata_link", op_verify_twice_unexpanded},
		{"verify_internal_rfc3161_legacy_signature", op_verify_rfc3161},
	};
	return c;
}

struct Outcome1 { std::string r1, r2; uint64_t n = 0, fired = 0, leaked = 0, bad_free = 0; bool setup_ok = true; std::string leak_sites, fail_site, all_sites; };

// transport variants: cfg "variant" bit0 = http for blocking calls
static Outcome1 run_case(size_t k, const std::vector<uint64_t> &fail_at, uint64_t fail_from, int variant) {
	Outcome1 o;
	K.reset(1600000000000LL);
	N.reset(); C.reset(); A.reset_all();
	Env e;
	e.bw.setup(2, 1, 8, 6, variant & 1, variant & 1);
	e.bw.install_hooks();
	e.async_cfg.key = "asynckey"; e.async_cfg.login = "asyncuser";
	e.async_ep = N.add_endpoint("async1.sim", 4001);
	e.async_ep2 = N.add_endpoint("async2.sim", 4002);
	e.async_ep3 = N.add_endpoint("async3.sim", 8080);
	e.ctx = sdk::new_ctx(0);
	if (!e.ctx) { o.setup_ok = false; return o; }
	e.bw.attach(e.ctx);
	KSI_CTX_setTransferTimeoutSeconds(e.ctx, 5);
	e.hash = imprint(1, "alloc-doc");
	{ ReplyMeta m; e.sig_bytes = e.bw.world.make_signature(e.hash, 0, 31337, true, m, 2); e.sig_time = m.agg_time; }
	for (int i = 0; i < 3; i++) { ReplyMeta m; e.bw.world.make_signature(imprint(1, "later" + std::to_string(i)), 0, 40 + i, true, m); }
	{
		ReqInfo ri; ri.has_id = true; ri.id = 7; ri.hash = e.hash; ri.has_hash = true; ri.level = 0; ReplyMeta m;
		e.aggr_reply = e.bw.world.aggr_reply(ri, e.bw.aggr, B_HONEST, 11, m);
		ReqInfo rx; rx.has_id = true; rx.id = 8; rx.is_ext = true; rx.agg_time = e.sig_time; rx.has_agg_time = true;
		e.ext_reply = e.bw.world.ext_reply(rx, e.bw.ext, B_HONEST, 12, m);
	}
	js::read_file("/repo/test/resource/tlv/ksi-publications.bin", e.pubfile);
	e.sig = sdk::parse_sig(e.ctx, e.sig_bytes);
	if (!e.sig) { o.setup_ok = false; KSI_CTX_free(e.ctx); return o; }
	Case &c = catalogue()[k];
	// faulted execution
	A.reset_counter();
	A.trace = true;
	for (auto i : fail_at) A.fail_at.insert(i);
	A.fail_from = fail_from;
	A.armed = true;
	K.api_begin(c.name);
	o.r1 = c.op(e);
	A.armed = false;
	o.n = A.count; o.fired = A.fired; o.fail_site = A.last_fail_site;
	for (auto &x : A.fail_sites) o.all_sites += (o.all_sites.empty() ? "" : " + ") + x;
	// the same operation again, without the fault, on the same context and objects
	o.r2 = c.op(e);
	KSI_Signature_free(e.sig);
	KSI_CTX_free(e.ctx);
	o.leaked = A.live.size();
	o.bad_free = A.bad_free;
	{
		std::set<std::string> sites;
		for (auto &kv : A.live) sites.insert(alloc_site(kv.first));
		for (auto &s : sites) { if (!o.leak_sites.empty()) o.leak_sites += " + "; o.leak_sites += s; }
	}
	A.trace = false;
	return o;
}

struct AllocEngine : run::Engine {
	std::vector<uint64_t> base_n;       // allocations of the fault-free operation, per case and variant
	std::vector<std::string> base_r;
	void baseline() {
		if (!base_n.empty()) return;
		for (size_t k = 0; k < catalogue().size(); k++) for (int v = 0; v < 2; v++) {
			Outcome1 o = run_case(k, {}, 0, v);
			base_n.push_back(o.n); base_r.push_back(o.r1);
		}
	}
	uint64_t total_single() { baseline(); uint64_t t = 0; for (auto n : base_n) t += n; return t; }
	const char *name() const override { return "alloc"; }
	run::Plan generate(uint64_t seed, const std::string &property, int tier) override { return generate_at(0, seed, property, tier); }
	run::Plan generate_at(uint64_t index, uint64_t seed, const std::string &property, int tier) override {
		(void)tier;
		baseline();
		run::Plan p; p.engine = name(); p.property = property; p.seed = seed;
		uint64_t i = index;
		for (size_t kv = 0; kv < base_n.size(); kv++) {
			if (i < base_n[kv]) { p.cfg["case"] = (int64_t)(kv / 2); p.cfg["variant"] = (int64_t)(kv % 2); p.cfg["fail1"] = (int64_t)i + 1; return p; }
			i -= base_n[kv];
		}
		// beyond the single-fault sweep: seeded multi-fault sets and "everything fails from i on"
		Rng g(mix(seed, 0xa110c));
		size_t kv = g.below(base_n.size());
		while (base_n[kv] < 3) kv = g.below(base_n.size());
		p.cfg["case"] = (int64_t)(kv / 2); p.cfg["variant"] = (int64_t)(kv % 2);
		if (g.chance(1, 3)) p.cfg["fail_from"] = (int64_t)g.range(1, (int64_t)base_n[kv]);
		else {
			int m = (int)g.range(2, 4);
			for (int j = 0; j < m; j++) p.cfg["fail" + std::to_string(j + 1)] = (int64_t)g.range(1, (int64_t)base_n[kv]);
		}
		return p;
	}
	run::RunResult execute(const run::Plan &p, bool trace) override {
		baseline();
		run::RunResult rr;
		K.trace = trace;
		size_t k = (size_t)p.c("case") % catalogue().size();
		int variant = (int)p.c("variant") & 1;
		std::vector<uint64_t> fa;
		for (int j = 1; j <= 4; j++) if (p.c("fail" + std::to_string(j))) fa.push_back((uint64_t)p.c("fail" + std::to_string(j)));
		Outcome1 o = run_case(k, fa, (uint64_t)p.c("fail_from"), variant);
		const std::string &base = base_r[k * 2 + (size_t)variant];
		const char *cn = catalogue()[k].name;
		std::string desc = std::string(cn) + (variant ? "/http" : "/tcp");
		K.ev("alloc case=%s n=%llu fired=%llu r1=%s r2=%s leaked=%llu", desc.c_str(), (unsigned long long)o.n, (unsigned long long)o.fired, o.r1.substr(0, 40).c_str(), o.r2.substr(0, 40).c_str(), (unsigned long long)o.leaked);
		K.count(("case." + desc).c_str());
		if (o.fired) K.count("outcome.fault_fired"); else K.count("outcome.fault_not_reached");
		bool r1_err = o.r1.compare(0, 2, "E:") == 0;
		if (o.fired && r1_err) K.count("outcome.error_returned"); else if (o.fired) K.count("outcome.completed_despite_fault");
		if (!o.setup_ok) { K.inconclusive = true; K.inconclusive_why = "setup failed"; }
		else {
			bool persistent = p.c("fail_from") != 0; // every allocation fails from some point on: no request can be completed any more
			if (o.r1.compare(0, 5, "LOST:") == 0 && persistent) K.count("outcome.no_progress_under_persistent_failure");
			// (several failed allocations: the class names all of them - the one that loses the request need not be the last)
			else if (o.r1.compare(0, 5, "LOST:") == 0) K.fail("C19", "request-lost-after-failed-allocation", std::string(cn) + "@" + (fa.size() > 1 ? "several: " + o.all_sites : o.fail_site), "%s: after a failed allocation in %s an accepted request was never handed back (%s)", desc.c_str(), o.fail_site.c_str(), o.r1.c_str());
			else if (o.r1.compare(0, 10, "SWALLOWED:") == 0 && !persistent && fa.size() == 1) K.fail("C19", "failed-allocation-swallowed", std::string(cn) + "@" + o.fail_site, "%s: the call in which the allocation in %s failed reported nothing, and the request it was serving ended much later with another error (%s) instead of the fault-free result", desc.c_str(), o.fail_site.c_str(), o.r1.c_str());
			else if (o.r1.compare(0, 10, "SWALLOWED:") == 0) K.count("outcome.late_error_under_several_failures");
			else if (!r1_err && o.r1 != base) K.fail("C19", "wrong-result-after-failed-allocation", std::string(cn) + "@" + o.fail_site, "%s: with allocation(s) failing the operation reported success with another result than fault-free (%s vs %s)", desc.c_str(), o.r1.substr(0, 60).c_str(), base.substr(0, 60).c_str());
			if (!o.fired && o.r1 != base) K.fail("C19", "harness-baseline-unstable", cn, "%s: result differs without any fault", desc.c_str());
			if (o.r2 != base) K.fail("C19", "not-usable-after-failed-allocation", std::string(cn) + "@" + o.fail_site, "%s: repeating the operation without the fault on the same context gives %s instead of %s (first attempt: %s)", desc.c_str(), o.r2.substr(0, 60).c_str(), base.substr(0, 60).c_str(), o.r1.substr(0, 40).c_str());
			if (o.leaked) K.fail("C19", "leak-after-failed-allocation", o.leak_sites, "%s: %llu allocation(s) still live after everything was freed, allocated in %s (first attempt: %s)", desc.c_str(), (unsigned long long)o.leaked, o.leak_sites.c_str(), o.r1.substr(0, 40).c_str());
			if (o.bad_free) K.fail("C19", "invalid-free", cn, "%s: %llu free() of a pointer that is not live", desc.c_str(), (unsigned long long)o.bad_free);
			if (K.counters.count("probe.blocked_without_timeout")) K.fail("C19", "blocked-after-failed-allocation", cn, "%s: a blocking call waited without timeout", desc.c_str());
		}
		rr.hash = mix(K.hash, mix(o.n, o.fired));
		rr.violations = K.violations; rr.counters = K.counters; rr.sim_ms = K.elapsed_ms;
		rr.inconclusive = K.inconclusive; rr.inconclusive_why = K.inconclusive_why;
		rr.nontrivial = o.fired > 0;
		rr.abstract_states.push_back(mix(k * 2 + (size_t)variant, o.fired ? (r1_err ? 1 : 2) : 0));
		if (trace) rr.log = K.log;
		K.trace = false;
		return rr;
	}
	uint64_t planned_runs(int tier) override { return total_single() + (tier ? 400000 : 4000); }
	void extra_evidence(js::Val &cov, int tier) override {
		js::Val cases = js::Val::arr();
		for (size_t kv = 0; kv < base_n.size(); kv++) {
			js::Val c = js::Val::obj();
			c.set("operation", std::string(catalogue()[kv / 2].name) + (kv % 2 ? "/http" : "/tcp"));
			c.set("allocations", js::Val(base_n[kv]));
			c.set("single_fault_indices_covered", "1.." + std::to_string(base_n[kv]) + " (all)");
			c.set("fault_free_result", base_r[kv].substr(0, 40));
			cases.push(c);
		}
		cov.set("catalogue", cases);
		cov.set("single_fault_space", js::Val(total_single()));
		cov.set("multi_fault_sets_planned", js::Val((uint64_t)(tier ? 400000 : 4000)));
		cov.set("exhaustive", true);
		cov.set("exhaustive_over", "every single allocation index 1..N of every catalogue operation (N measured by a counting run); the multi-fault sets on top are sampled");
	}
	std::string state_measure() const override { return "(catalogue operation, transport variant, outcome class: not reached / error returned / fault absorbed) per run"; }
	std::string nontrivial_rule() const override { return "one evaluation = one catalogue operation run from a fresh setup with a chosen set of allocation indices failing; non-trivial = at least one failure was actually injected (the index was reached); distinct = distinct (operation, transport, fault set, event log)"; }
};

static AllocEngine g_alloc;
struct RegAl { RegAl() { run::register_engine(&g_alloc); } } g_regal;

} // namespace

uint64_t alloc_total_single() { return g_alloc.total_single(); }

// triage helper: every single-fault index in an isolated child; prints one line per distinct (operation, problem, site)
int alloc_triage() {
	g_alloc.baseline();
	uint64_t total = g_alloc.total_single();
	std::map<std::string, std::pair<uint64_t, uint64_t>> seen; // key -> (count, first index)
	for (uint64_t i = 0; i < total; i++) {
		run::Plan p = g_alloc.generate_at(i, 0, "C19", 0);
		run::Isolated r = run::run_isolated(p);
		std::string key;
		std::string cn = catalogue()[(size_t)p.c("case")].name;
		if (r.crashed) {
			std::string t = r.stderr_head;
			std::string kind = "crash";
			size_t k = t.find("ERROR: AddressSanitizer: ");
			if (k != std::string::npos) kind = t.substr(k + 25, t.find_first_of(" \n", k + 25) - (k + 25));
			else if ((k = t.find("runtime error: ")) != std::string::npos) kind = "ubsan:" + t.substr(k + 15, std::min<size_t>(50, t.find('\n', k) - (k + 15)));
			std::string site = "?";
			size_t f = t.find("/repo/src/ksi/");
			if (f != std::string::npos) site = t.substr(f + 14, t.find_first_of(" \n)", f) - (f + 14));
			// function name of that frame
			size_t in = t.rfind(" in ", f);
			std::string fn = in != std::string::npos ? t.substr(in + 4, f - in - 5) : "";
			key = cn + " | " + kind + " | " + fn + " " + site;
		} else {
			for (auto &v : r.violations) key += cn + " | " + v.rule + " | " + v.detail.substr(v.detail.find(':') + 1, 60) + " ;; ";
		}
		if (key.empty()) continue;
		auto &e = seen[key];
		if (!e.first) e.second = i;
		e.first++;
	}
	for (auto &kv : seen) printf("%6llu x first@%llu  %s\n", (unsigned long long)kv.second.first, (unsigned long long)kv.second.second, kv.first.c_str());
	return 0;
}
std::vector<std::pair<std::string, uint64_t>> alloc_case_sizes() {
	g_alloc.baseline();
	std::vector<std::pair<std::string, uint64_t>> v;
	for (size_t kv = 0; kv < g_alloc.base_n.size(); kv++) v.push_back({std::string(catalogue()[kv / 2].name) + (kv % 2 ? "/http" : "/tcp"), g_alloc.base_n[kv]});
	return v;
}

} // namespace eng
