// `alloc` engine (C19) — placeholder until the catalogue is built
#include "run/runner.h"
namespace run { int cmd_alloc_check(const std::string &tier) { (void)tier; fprintf(stderr, "alloc engine not built yet\n"); return 2; } }
