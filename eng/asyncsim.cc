#include "eng/asyncsim.h"
#include "sim/kernel.h"
#include "sim/peek.h"
#include <algorithm>
#include <cstring>

using namespace sim;
using namespace ref;

namespace eng {

static AsyncSim *g_cur = nullptr;

static int conf_cb_tramp(KSI_CTX *, KSI_Config *c) {
	if (g_cur) g_cur->on_conf_callback(c);
	return KSI_OK;
}

static const int64_t EPOCHS_S[] = {1600000000LL, 1136073600LL + 86400, 1700000000LL, 2147483000LL, 4294967000LL, 1500100000LL};

ConfVals read_config(KSI_Config *c) {
	ConfVals cv;
	KSI_Integer *v = nullptr;
	if (KSI_Config_getMaxLevel(c, &v) == KSI_OK && v) cv.max_level = KSI_Integer_getUInt64(v);
	v = nullptr;
	if (KSI_Config_getAggrAlgo(c, &v) == KSI_OK && v) { cv.aggr_alg = KSI_Integer_getUInt64(v); cv.has_alg = true; }
	v = nullptr;
	if (KSI_Config_getAggrPeriod(c, &v) == KSI_OK && v) cv.aggr_period = KSI_Integer_getUInt64(v);
	v = nullptr;
	if (KSI_Config_getMaxRequests(c, &v) == KSI_OK && v) cv.max_requests = KSI_Integer_getUInt64(v);
	v = nullptr;
	if (KSI_Config_getCalendarFirstTime(c, &v) == KSI_OK && v) cv.cal_first = KSI_Integer_getUInt64(v);
	v = nullptr;
	if (KSI_Config_getCalendarLastTime(c, &v) == KSI_OK && v) cv.cal_last = KSI_Integer_getUInt64(v);
	return cv;
}

bool conf_eq(const ConfVals &a, const ConfVals &b) {
	return a.max_level == b.max_level && a.aggr_period == b.aggr_period && a.max_requests == b.max_requests &&
	       a.cal_first == b.cal_first && a.cal_last == b.cal_last && a.has_alg == b.has_alg && (!a.has_alg || a.aggr_alg == b.aggr_alg);
}

AsyncSim::AsyncSim(const run::Plan &p, bool ha_) : plan(p), ha(ha_) { prop = p.property; }
AsyncSim::~AsyncSim() {}

void AsyncSim::on_conf_callback(KSI_Config *c) {
	ConfEvent e;
	e.seq = K.ev("conf-callback");
	e.cv = read_config(c);
	e.via_callback = true;
	e.ep = -1;
	conf_events.push_back(e);
	K.count("probe.conf_callback");
	if (!ha) {
		refresh_frames();
		bool ok = false;
		for (auto &f : frames) if (!f.bad && f.info.has_conf && f.arrive_seq <= K.seq && conf_eq(f.info.conf, e.cv)) ok = true;
		if (!ok) K.fail("C06", "config-without-authentic-pdu", "callback", "configuration callback invoked but no authentic configuration PDU with these values arrived");
	}
}

void AsyncSim::setup() {
	int64_t epoch = EPOCHS_S[plan.c("epoch", 0) % 6] * 1000 + plan.c("epoch_ms", 0) % 1000;
	K.reset(epoch);
	if (ha) { K.alias_from = "C13"; K.alias_to = "C15"; } // exactly-once / soundness / liveness of the HA service are C15's
	N.reset();
	C.reset();
	g_cur = this;
	svc_ext = plan.c("svc", 0) != 0;
	cache = (size_t)std::max<int64_t>(1, plan.c("cache", 1));
	maxreq = (size_t)std::max<int64_t>(1, plan.c("maxreq", 1));
	snd_to = (int)plan.c("snd_to", 10); rcv_to = (int)plan.c("rcv_to", 10); con_to = (int)plan.c("con_to", 10);
	conf_cb = plan.c("conf_cb", 0) != 0;
	int ver = plan.c("pdu_ver", 2) == 1 ? 1 : 2;
	int alg = (int)plan.c("mac_alg", 1);
	if (alg != 1 && alg != 4 && alg != 5) alg = 1;
	int neps = ha ? (int)std::min<int64_t>(3, std::max<int64_t>(1, plan.c("eps", 2))) : 1;
	world.next_round = (uint64_t)(epoch / 1000) - 200000;
	// a few rounds so that the extender has something to extend
	for (int i = 0; i < (ha ? 40 : 4); i++) {
		ReplyMeta m;
		std::string h = imprint(1, "pre" + std::to_string(i));
		known_sigs.push_back(world.make_signature(h, 0, 100 + i, true, m));
		known_hashes.push_back(h);
		known_times.push_back(m.agg_time);
	}
	ctx = sdk::new_ctx((int)plan.c("loglevel", 0));
	KSI_CTX_setOption(ctx, svc_ext ? KSI_OPT_EXT_PDU_VER : KSI_OPT_AGGR_PDU_VER, (void *)(size_t)ver);
	KSI_CTX_setOption(ctx, svc_ext ? KSI_OPT_EXT_HMAC_ALGORITHM : KSI_OPT_AGGR_HMAC_ALGORITHM, (void *)(size_t)alg);
	int res;
	size_t keylen = (size_t)std::max<int64_t>(1, plan.c("keylen", 8));
	size_t loginlen = (size_t)std::max<int64_t>(1, plan.c("loginlen", 6));
	for (int i = 0; i < neps; i++) {
		SimEndpoint e;
		e.http = ha ? ((plan.c("transport", 0) >> i) & 1) : (plan.c("transport", 0) & 1);
		e.host = "ep" + std::to_string(i) + ".sim";
		e.port = 3330 + i;
		e.cfg.extender = svc_ext;
		e.cfg.pdu_ver = ver;
		e.cfg.mac_alg = alg;
		std::string key, login;
		for (size_t k = 0; k < keylen; k++) key.push_back((char)('A' + (k * 7 + i * 3 + (k >> 5)) % 26));
		for (size_t k = 0; k < loginlen; k++) login.push_back((char)('a' + (k * 5 + i) % 26));
		e.cred_in_uri = plan.c("cred_in_uri", 0) != 0 && !e.http;   // login and key travel in the URI; the key contains a colon
		if (e.cred_in_uri && key.size() >= 3) key[key.size() / 2] = ':';
		e.cfg.key = key; e.cfg.login = login;
		e.net_ep = N.add_endpoint(e.host, e.port);
		e.uri = (e.http ? "ksi+http://" : "ksi+tcp://") + (e.cred_in_uri ? login + ":" + key + "@" : "") + e.host + ":" + std::to_string(e.port) + (e.http ? "/svc" + std::to_string(i) : "");
		eps.push_back(e);
	}
	(void)res;
	if (!create_service()) return;
	// HTTP: the server learns about a request when its body has been sent
	C.on_request = [this](Xfer &x) {
		for (auto &e : eps) {
			if (!e.http || e.net_ep != x.ep) continue;
			SrvReq rq;
			rq.ep = (int)(&e - &eps[0]);
			rq.xfer = x.idx;
			rq.recv_seq = K.seq;
			parse_request(x.req_body, e.cfg.key, rq.info);
			e.request_log.push_back(rq.info);
			e.pending.push_back(rq);
		}
	};
	K.ev("setup %s eps=%d cache=%zu maxreq=%zu to=%d/%d/%d ver=%d alg=%d", ha ? "ha" : "async", neps, cache, maxreq, snd_to, rcv_to, con_to, ver, alg);
}

// the service object with its endpoints and options (also used to replace a service that was freed in the middle of a run)
bool AsyncSim::create_service() {
	int res;
	if (ha) res = svc_ext ? KSI_ExtendingHighAvailabilityService_new(ctx, &svc) : KSI_SigningHighAvailabilityService_new(ctx, &svc);
	else res = svc_ext ? KSI_ExtendingAsyncService_new(ctx, &svc) : KSI_SigningAsyncService_new(ctx, &svc);
	if (res != KSI_OK) { K.inconclusive = true; K.inconclusive_why = "service_new failed"; return false; }
	for (auto &e : eps) {
		res = ha ? KSI_AsyncService_addEndpoint(svc, e.uri.c_str(), e.cred_in_uri ? NULL : e.cfg.login.c_str(), e.cred_in_uri ? NULL : e.cfg.key.c_str())
		         : KSI_AsyncService_setEndpoint(svc, e.uri.c_str(), e.cred_in_uri ? NULL : e.cfg.login.c_str(), e.cred_in_uri ? NULL : e.cfg.key.c_str());
		if (res != KSI_OK) { K.inconclusive = true; K.inconclusive_why = "setEndpoint failed"; return false; }
	}
	KSI_AsyncService_setOption(svc, KSI_ASYNC_OPT_REQUEST_CACHE_SIZE, (void *)cache);
	KSI_AsyncService_setOption(svc, KSI_ASYNC_OPT_MAX_REQUEST_COUNT, (void *)maxreq);
	KSI_AsyncService_setOption(svc, KSI_ASYNC_OPT_SND_TIMEOUT, (void *)(size_t)snd_to);
	KSI_AsyncService_setOption(svc, KSI_ASYNC_OPT_RCV_TIMEOUT, (void *)(size_t)rcv_to);
	KSI_AsyncService_setOption(svc, KSI_ASYNC_OPT_CON_TIMEOUT, (void *)(size_t)con_to);
	if (conf_cb) KSI_AsyncService_setOption(svc, KSI_ASYNC_OPT_PUSH_CONF_CALLBACK, (void *)conf_cb_tramp);
	return true;
}

// The application frees the service with requests still outstanding (they are abandoned: the service owned them) and creates a
// new one on the same context. What the context recycles from the old service must not influence the new one.
void AsyncSim::op_recreate() {
	if (!svc || !plan.c("recreate", 0) || in_quiesce) return;
	for (auto &e : eps) if (e.http) return;
	size_t abandoned = 0;
	for (auto &r : recs) if (r->outstanding) {
		r->outstanding = false; r->h = nullptr; r->abandoned = true; abandoned++;
		if (!r->att.empty()) r->att.back().returned = true; // never, in fact: it no longer takes part in any matching
	}
	K.ev("RECREATE service (%zu outstanding request(s) abandoned)", abandoned);
	K.count("probe.service_recreated");
	if (abandoned) K.count("probe.service_recreated_with_outstanding");
	KSI_AsyncService_free(svc);
	svc = nullptr;
	for (auto &e : eps) { e.pending.clear(); e.answered.clear(); e.pushed_conf = false; }
	conf_events.clear();
	stream_corrupted = false;
	if (!create_service()) return;
	generation++;
	svc_birth_seq = K.seq;
}

// HA: the application points the live service at its endpoints again (KSI_AsyncService_setEndpoint on the HA service drops the
// sub-services, addEndpoint adds the others back). Nothing the old sub-services had consolidated or queued may survive: the
// consolidated configuration afterwards is the fold over what the new sub-services receive.
void AsyncSim::op_repoint() {
	if (!svc || !ha || !plan.c("repoint", 0) || in_quiesce || outstanding() > 0) return;
	for (auto &e : eps) if (e.http) return;
	K.ev("REPOINT service");
	K.count("probe.ha_service_repointed");
	for (size_t i = 0; i < eps.size(); i++) {
		SimEndpoint &e = eps[i];
		int res = i == 0 ? KSI_AsyncService_setEndpoint(svc, e.uri.c_str(), e.cred_in_uri ? NULL : e.cfg.login.c_str(), e.cred_in_uri ? NULL : e.cfg.key.c_str())
		                 : KSI_AsyncService_addEndpoint(svc, e.uri.c_str(), e.cred_in_uri ? NULL : e.cfg.login.c_str(), e.cred_in_uri ? NULL : e.cfg.key.c_str());
		if (res != KSI_OK) { K.fail("C15", "repoint-refused", "setEndpoint", "pointing the HA service at endpoint %zu again failed with 0x%x", i, res); return; }
	}
	KSI_AsyncService_setOption(svc, KSI_ASYNC_OPT_REQUEST_CACHE_SIZE, (void *)cache);
	KSI_AsyncService_setOption(svc, KSI_ASYNC_OPT_MAX_REQUEST_COUNT, (void *)maxreq);
	KSI_AsyncService_setOption(svc, KSI_ASYNC_OPT_SND_TIMEOUT, (void *)(size_t)snd_to);
	KSI_AsyncService_setOption(svc, KSI_ASYNC_OPT_RCV_TIMEOUT, (void *)(size_t)rcv_to);
	KSI_AsyncService_setOption(svc, KSI_ASYNC_OPT_CON_TIMEOUT, (void *)(size_t)con_to);
	if (conf_cb) KSI_AsyncService_setOption(svc, KSI_ASYNC_OPT_PUSH_CONF_CALLBACK, (void *)conf_cb_tramp);
	for (auto &e : eps) { e.pending.clear(); e.answered.clear(); e.pushed_conf = false; }
	conf_events.clear();
	stream_corrupted = false;
	generation++;
	svc_birth_seq = K.seq;
}

bool AsyncSim::frame_of_current_service(const Frame &f) const {
	if (f.conn >= 0) return N.conns[(size_t)f.conn]->opened_seq >= svc_birth_seq;
	if (f.xfer >= 0) return C.xfers[(size_t)f.xfer]->added_seq >= svc_birth_seq;
	return true;
}

void AsyncSim::teardown() {
	g_cur = nullptr;
	for (auto &r : recs) if (r->held && r->h) { KSI_AsyncHandle_free(r->h); r->h = nullptr; r->held = false; }
	if (svc) KSI_AsyncService_free(svc);
	svc = nullptr;
	if (ctx) KSI_CTX_free(ctx);
	ctx = nullptr;
	int open = 0;
	for (auto &c : N.conns) if (!c->client_closed) open++;
	if (open) K.count("probe.socket_left_open", (uint64_t)open);
}

uint64_t AsyncSim::run_begin_containing(uint64_t seq) const {
	for (auto &rc : run_calls) if (rc.first <= seq && seq <= rc.second) return rc.first;
	return 0;
}
uint64_t AsyncSim::prev_run_end_before(uint64_t seq) const {
	uint64_t best = 0;
	for (auto &rc : run_calls) if (rc.second < seq && rc.second > best) best = rc.second;
	return best;
}

size_t AsyncSim::outstanding() const {
	size_t n = 0;
	for (auto &r : recs) if (r->outstanding) n++;
	return n;
}

size_t AsyncSim::outstanding_slots() const {
	size_t n = 0;
	for (auto &r : recs) if (r->outstanding && !r->is_conf) n++;
	return n;
}

size_t AsyncSim::conf_extra(const struct ::peek_client &pc) const {
	if (!pc.has_server_conf) return 0;
	for (auto &r : recs) if (r->outstanding && r->is_conf && r->h == pc.server_conf) return 0;
	return 1;
}

bool AsyncSim::anything_in_flight() const { return outstanding() > 0; }

void AsyncSim::note_fault(const char *kind) {
	K.count((std::string("fault.") + kind).c_str());
	if (anything_in_flight()) { inflight_fault = true; K.count("fault.while_in_flight"); }
}

// ---------------------------------------------------------------------------------------------------------
// wire bookkeeping

void AsyncSim::note_sent() {
	if (ha) return;
	SimEndpoint &e = eps[0];
	auto mark = [&](uint64_t id, uint64_t seq, uint64_t dseq, int64_t dms) {
		for (int pass = 0; pass < 2; pass++)
			for (auto &r : recs) for (auto &a : r->att) if (a.id == id && a.sent_seq == 0 && (pass == 1 || !a.returned)) {
				a.sent_seq = seq; a.sent_ms = K.now_ms;
				if (a.disp_seq == 0) { a.disp_seq = dseq ? dseq : seq; a.disp_ms = dseq ? dms : K.now_ms; }
				return;
			}
	};
	auto mark_conf = [&](uint64_t seq, uint64_t dseq, int64_t dms) {
		for (int pass = 0; pass < 2; pass++)
		for (auto &r : recs) for (auto &a : r->att) if (a.is_conf && a.sent_seq == 0 && (pass == 1 || !a.returned)) {
			a.sent_seq = seq; a.sent_ms = K.now_ms;
			if (a.disp_seq == 0) { a.disp_seq = dseq ? dseq : seq; a.disp_ms = dseq ? dms : K.now_ms; }
			return;
		}
	};
	auto mark_conf_disp = [&](uint64_t dseq, int64_t dms) {
		for (int pass = 0; pass < 2; pass++)
		for (auto &r : recs) for (auto &a : r->att) if (a.is_conf && a.disp_seq == 0 && a.accepted_seq <= dseq && (pass == 1 || !a.returned)) { a.disp_seq = dseq; a.disp_ms = dms; return; }
	};
	auto mark_disp = [&](uint64_t id, uint64_t dseq, int64_t dms) {
		for (auto &r : recs) for (auto &a : r->att) if (a.id == id && a.disp_seq == 0 && a.accepted_seq <= dseq) { a.disp_seq = dseq; a.disp_ms = dms; return; }
	};
	if (!e.http) {
		for (auto &cp : N.conns) {
			Conn &c = *cp;
			if (c.ep != e.net_ep) continue;
			size_t &off = e.conn_req_parsed[c.idx];
			while (off < c.c2s.size()) {
				size_t fl = frame_len(c.c2s, off);
				if (fl == 0 || off + fl > c.c2s.size()) break;
				ReqInfo ri;
				std::string pdu = c.c2s.substr(off, fl);
				if (parse_request(pdu, e.cfg.key, ri) && ri.has_id) mark(ri.id, c.seq_when_sent(off + fl), 0, 0);
				else if (ri.has_conf_req && !ri.has_req) mark_conf(c.seq_when_sent(off + fl), 0, 0);
				off += fl;
			}
		}
	} else {
		// dispatch = handed to libcurl
		for (auto &xp : C.xfers) {
			Xfer &x = *xp;
			if (x.ep != e.net_ep || e.conn_req_parsed.count(-1000000 - x.idx)) continue;
			e.conn_req_parsed[-1000000 - x.idx] = 1;
			ReqInfo ri;
			if (parse_request(x.body_at_add, e.cfg.key, ri) && ri.has_id) mark_disp(ri.id, x.added_seq, x.added_ms);
			else if (ri.has_conf_req && !ri.has_req) mark_conf_disp(x.added_seq, x.added_ms);
		}
		for (auto &xp : C.xfers) {
			Xfer &x = *xp;
			if (x.ep != e.net_ep || x.sent_seq == 0) continue;
			if (e.conn_req_parsed.count(-1 - x.idx)) continue;
			e.conn_req_parsed[-1 - x.idx] = 1;
			ReqInfo ri;
			if (parse_request(x.req_body, e.cfg.key, ri) && ri.has_id) mark(ri.id, x.sent_seq, x.added_seq, x.added_ms);
			else if (ri.has_conf_req && !ri.has_req) mark_conf(x.sent_seq, x.added_seq, x.added_ms);
		}
	}
}

static void classify_frame(Frame &f, const EndpointCfg &cfg) {
	classify_response(f.bytes, cfg.key, f.info);
	const RespInfo &i = f.info;
	bool auth = i.authentic(cfg.mac_alg) && i.ver == cfg.pdu_ver && i.is_ext == cfg.extender;
	f.bad = !i.framed || !i.known_tag || (!i.has_error && !auth) || i.malformed_imprint;
	// an error PDU is acted upon before authentication; it is not "bad data" but its own cause class
	if (i.framed && i.known_tag && i.has_error && i.ver == cfg.pdu_ver) f.bad = false;
	f.clean_resp = auth && i.has_resp && i.has_id && i.status == 0 && !i.has_error && !i.malformed_imprint; // (a PDU no client can parse is no valid reply)
	f.authentic = auth;
}

void AsyncSim::refresh_frames() {
	for (size_t ei = 0; ei < eps.size(); ei++) {
		SimEndpoint &e = eps[ei];
		if (!e.http) {
			for (auto &cp : N.conns) {
				Conn &c = *cp;
				if (c.ep != e.net_ep) continue;
				size_t &off = e.conn_parsed[c.idx];
				while (off < c.s2c_arrived) {
					size_t fl = frame_len((const unsigned char *)c.s2c_all.data() + off, c.s2c_arrived - off);
					if (fl == 0 || off + fl > c.s2c_arrived) break;
					Frame f;
					f.ep = (int)ei; f.conn = c.idx;
					f.bytes = c.s2c_all.substr(off, fl);
					f.arrive_seq = c.seq_when_arrived(off + fl);
					f.read_seq = c.seq_when_read(off + fl);
					auto it = reply_label.find(f.bytes);
					f.behav = it == reply_label.end() ? -1 : it->second;
					classify_frame(f, e.cfg);
					frames.push_back(f);
					off += fl;
				}
			}
		} else {
			for (auto &xp : C.xfers) {
				Xfer &x = *xp;
				if (x.ep != e.net_ep || !x.responded || x.arrived != x.resp_body.size() || e.xfer_framed.count(x.idx)) continue;
				if (x.http_code >= 400) { e.xfer_framed.insert(x.idx); continue; }
				e.xfer_framed.insert(x.idx);
				size_t off = 0;
				while (off < x.resp_body.size()) {
					size_t fl = frame_len(x.resp_body, off);
					Frame f;
					f.ep = (int)ei; f.xfer = x.idx;
					// (a body cut short in flight after its last delivered byte has no "final byte arrived" event: it is complete when the transfer ends)
					f.arrive_seq = x.last_arrive_seq ? x.last_arrive_seq : (x.done_seq ? x.done_seq : K.seq);
					if (fl == 0 || off + fl > x.resp_body.size()) {
						f.bytes = x.resp_body.substr(off);
						f.bad = true;
						frames.push_back(f);
						break;
					}
					f.bytes = x.resp_body.substr(off, fl);
					auto it = reply_label.find(f.bytes);
					f.behav = it == reply_label.end() ? -1 : it->second;
					classify_frame(f, e.cfg);
					frames.push_back(f);
					off += fl;
				}
			}
		}
	}
}

std::vector<std::pair<int, int>> AsyncSim::streams_with_inflight() {
	std::vector<std::pair<int, int>> v;
	for (auto &e : eps) {
		if (!e.http) {
			for (auto &cp : N.conns) if (cp->ep == e.net_ep && cp->st == Conn::ESTABLISHED && !cp->rst && (cp->inflight() > 0 || (cp->srv_closed && !cp->fin_readable))) v.push_back({cp->idx, -1});
		} else {
			for (auto &xp : C.xfers) if (xp->ep == e.net_ep && xp->st == Xfer::SENT && xp->inflight() > 0) v.push_back({-1, xp->idx});
		}
	}
	return v;
}

void AsyncSim::emit(SimEndpoint &e, int conn, int xfer, const std::string &bytes) {
	if (!e.http) {
		Conn *c = conn >= 0 ? N.conns[conn].get() : N.live_conn_of(e.net_ep);
		if (!c) return;
		N.srv_write(*c, bytes);
	} else {
		if (xfer < 0) return;
		C.respond(*C.xfers[xfer], 200, bytes);
	}
}

// ---------------------------------------------------------------------------------------------------------
// ops

void AsyncSim::op_add(const run::Op &op) {
	auto rec = std::make_unique<HRec>();
	rec->idx = (int)recs.size();
	KSI_AsyncHandle *h = nullptr;
	int res;
	// a configuration request: no hash / times; the service answers it with its configuration (plain service only, DESIGN.md 10.5)
	if (!ha && plan.c("conf_req", 0) && op.arg(1) % 6 == 5) {
		rec->is_conf = true;
		KSI_Config *cfg = nullptr;
		KSI_Config_new(ctx, &cfg);
		if (!svc_ext) {
			KSI_AggregationReq *rq = nullptr;
			KSI_AggregationReq_new(ctx, &rq);
			KSI_AggregationReq_setConfig(rq, cfg);
			res = KSI_AsyncAggregationHandle_new(ctx, rq, &h);
			if (res != KSI_OK) { KSI_AggregationReq_free(rq); K.inconclusive = true; K.inconclusive_why = "handle_new failed"; return; }
		} else {
			KSI_ExtendReq *rq = nullptr;
			KSI_ExtendReq_new(ctx, &rq);
			KSI_ExtendReq_setConfig(rq, cfg);
			res = KSI_AsyncExtendHandle_new(ctx, rq, &h);
			if (res != KSI_OK) { KSI_ExtendReq_free(rq); K.inconclusive = true; K.inconclusive_why = "handle_new failed"; return; }
		}
		K.count("probe.conf_request");
	} else
	if (!svc_ext) {
		int alg = op.arg(1) % 7 == 3 ? 5 : 1;
		rec->hash = imprint(alg, "doc-" + std::to_string(plan.seed) + "-" + std::to_string(hash_counter++));
		rec->level = (uint64_t)(op.arg(0) % 4 == 3 ? op.arg(0) % 200 : op.arg(0) % 3);
		KSI_DataHash *dh = sdk::hash_from_imprint(ctx, rec->hash);
		res = KSI_AsyncSigningHandle_new(ctx, dh, rec->level, &h);
		if (res != KSI_OK) { KSI_DataHash_free(dh); K.inconclusive = true; K.inconclusive_why = "handle_new failed"; return; }
	} else {
		if (!ha && op.arg(1) % 5 == 4) {
			// extend a signature through the service: the handle is made from the signature and, optionally, a publication record
			size_t k = (size_t)op.arg(0) % known_sigs.size();
			rec->sig_extend = true; rec->src_sig = known_sigs[k]; rec->src_hash = known_hashes[k];
			rec->agg_time = known_times[k];
			rec->pub_variant = (int)(op.arg(1) / 5 % 3);   // 0 none (calendar head), 1 record the calendar reproduces, 2 record with another hash
			int pres = 0;
			KSI_Signature *src = sdk::parse_sig(ctx, rec->src_sig, &pres);
			KSI_PublicationRecord *prec = nullptr;
			if (src && rec->pub_variant) {
				rec->has_pub = true;
				rec->pub_time = std::min<uint64_t>(world.head(), rec->agg_time + 1 + (uint64_t)(op.arg(1) / 15 % 3));
				rec->pub_root = rec->pub_variant == 1 ? world.cal.root(rec->pub_time) : imprint(1, "a publication the calendar does not reproduce");
				KSI_PublicationData *pd = nullptr; KSI_Integer *t = nullptr;
				KSI_PublicationData_new(ctx, &pd);
				KSI_Integer_new(ctx, rec->pub_time, &t);
				KSI_PublicationData_setTime(pd, t);
				KSI_PublicationData_setImprint(pd, sdk::hash_from_imprint(ctx, rec->pub_root));
				KSI_PublicationRecord_new(ctx, &prec);
				KSI_PublicationRecord_setPublishedData(prec, pd);
			}
			res = src ? KSI_AsyncExtendingHandle_new(ctx, src, prec, &h) : KSI_UNKNOWN_ERROR;
			KSI_PublicationRecord_free(prec);
			KSI_Signature_free(src);
			if (res != KSI_OK) { K.inconclusive = true; K.inconclusive_why = "extending handle_new failed"; return; }
			K.count("probe.signature_extending_handle");
		} else {
		KSI_ExtendReq *rq = nullptr;
		KSI_ExtendReq_new(ctx, &rq);
		rec->agg_time = ha ? known_times[hash_counter++ % known_times.size()] : known_times[(size_t)op.arg(0) % known_times.size()];
		KSI_Integer *t = nullptr;
		KSI_Integer_new(ctx, rec->agg_time, &t);
		KSI_ExtendReq_setAggregationTime(rq, t);
		if (op.arg(1) % 3 == 1) {
			rec->has_pub = true;
			rec->pub_time = std::min<uint64_t>(world.head(), rec->agg_time + (uint64_t)(op.arg(1) % 5));
			KSI_Integer *p = nullptr;
			KSI_Integer_new(ctx, rec->pub_time, &p);
			KSI_ExtendReq_setPublicationTime(rq, p);
		}
		res = KSI_AsyncExtendHandle_new(ctx, rq, &h);
		if (res != KSI_OK) { KSI_ExtendReq_free(rq); K.inconclusive = true; K.inconclusive_why = "handle_new failed"; return; }
		}
	}
	rec->h = h;
	if (ha) ha_before_add(*rec);
	// occupancy as the property counts it: requests accepted and not yet handed back, plus a pushed configuration waiting to be
	// collected; a configuration request is counted (it is outstanding) but needs no cache slot itself
	struct peek_client pc; memset(&pc, 0, sizeof pc);
	bool havepc = !ha && peek_client(svc, &pc);
	size_t before = outstanding() + (havepc ? conf_extra(pc) : 0);
	// an earlier configuration request still outstanding is superseded by a new one (the service keeps one configuration slot)
	HRec *superseded = nullptr;
	if (rec->is_conf) for (auto &r : recs) if (r->outstanding && r->is_conf) superseded = r.get();
	K.api_begin("add");
	res = KSI_AsyncService_addRequest(svc, h);
	K.ev("ADD #%d%s -> 0x%x", rec->idx, rec->is_conf ? " (configuration request)" : "", res);
	if (res == KSI_OK) {
		Attempt a;
		KSI_AsyncHandle_getRequestId(h, &a.id);
		a.is_conf = rec->is_conf;
		a.accepted_seq = K.seq; a.accepted_ms = K.now_ms;
		rec->att.push_back(a);
		rec->outstanding = true;
		// identifiers: id = generation << 32 | slot with an 8-bit generation counter that runs through 255 values, so the same id
		// cannot come back before 255 further requests have been accepted by this service object (a reply kept from the earlier
		// request would otherwise bear the later request's "own" identifier)
		if (!ha && !rec->is_conf) {
			accepted_adds++;
			auto it = id_last_accept.find(a.id);
			if (it != id_last_accept.end() && it->second.first == generation && accepted_adds - it->second.second < 255)
				K.fail("C13", "request-id-reused", "add", "request #%d was given the id 0x%llx, which an earlier request of this service had %llu accepted requests ago", rec->idx, (unsigned long long)a.id, (unsigned long long)(accepted_adds - it->second.second));
			id_last_accept[a.id] = {generation, accepted_adds};
		}
		if (!ha && !rec->is_conf && before >= cache)
			K.fail("C13", "cache-full-not-refused", "add", "request accepted with %zu outstanding (incl. configuration handles) and cache size %zu", before, cache);
		if (superseded) {
			// the service keeps one configuration slot: the earlier request is dropped from it and will never be handed back
			K.count("probe.conf_request_superseded");
			K.ev("configuration request #%d superseded by #%d", superseded->idx, rec->idx);
			superseded->outstanding = false;
			superseded->h = nullptr; // the service has released it
			if (!superseded->att.empty()) superseded->att.back().returned = true; // (never, in fact: it no longer takes part in the matching of wire requests)
			superseded_conf.push_back(superseded);
		}
		recs.push_back(std::move(rec));
	} else {
		if (res == KSI_ASYNC_REQUEST_CACHE_FULL) {
			K.count("probe.cache_full");
			if (!ha && (rec->is_conf || before < cache))
				K.fail("C13", "cache-full-wrongly-refused", "add", "CACHE_FULL with %zu outstanding (incl. configuration handles), cache size %zu%s", before, cache, rec->is_conf ? " for a configuration request" : "");
		} else if (!ha) {
			K.fail("C13", "add-unexpected-error", sdk::err_name(res), "addRequest returned 0x%x", res);
		}
		KSI_AsyncHandle_free(h);
	}
	after_api("add");
}

void AsyncSim::op_readd(const run::Op &op) {
	std::vector<HRec *> cand;
	// a returned handle may be submitted again: after an error (documented) and also after a response (addRequest resets the handle)
	// (not through the HA service: there the sub-requests of the answered round may still be in flight at the other endpoints,
	// and only the re-adding of failed requests is documented)
	for (auto &r : recs) if (r->held && (r->hold_state == KSI_ASYNC_STATE_ERROR || (!ha && r->hold_state == KSI_ASYNC_STATE_RESPONSE_RECEIVED))) cand.push_back(r.get());
	if (cand.empty()) return;
	HRec &r = *cand[(size_t)op.arg(0) % cand.size()];
	if (r.hold_state == KSI_ASYNC_STATE_RESPONSE_RECEIVED) K.count("probe.readd_after_response");
	if (ha) ha_before_add(r);
	struct peek_client pc; memset(&pc, 0, sizeof pc);
	bool havepc = !ha && peek_client(svc, &pc);
	size_t before = outstanding() + (havepc ? conf_extra(pc) : 0);
	HRec *superseded = nullptr;
	if (r.is_conf) for (auto &o : recs) if (o->outstanding && o->is_conf) superseded = o.get();
	K.api_begin("add");
	int res = KSI_AsyncService_addRequest(svc, r.h);
	if (res == KSI_OK && superseded) {
		K.count("probe.conf_request_superseded");
		K.ev("configuration request #%d superseded by #%d", superseded->idx, r.idx);
		superseded->outstanding = false; superseded->h = nullptr;
		if (!superseded->att.empty()) superseded->att.back().returned = true;
		superseded_conf.push_back(superseded);
	}
	K.ev("READD #%d -> 0x%x", r.idx, res);
	K.count("probe.readd");
	if (res == KSI_OK) {
		Attempt a;
		KSI_AsyncHandle_getRequestId(r.h, &a.id);
		a.accepted_seq = K.seq; a.accepted_ms = K.now_ms;
		a.is_conf = r.is_conf;
		r.att.push_back(a);
		r.outstanding = true; r.held = false;
		if (!ha && !r.is_conf && before >= cache)
			K.fail("C13", "cache-full-not-refused", "readd", "request accepted with %zu outstanding and cache size %zu", before, cache);
	} else if (res == KSI_ASYNC_REQUEST_CACHE_FULL) {
		if (!ha && before < cache)
			K.fail("C13", "cache-full-wrongly-refused", "readd", "CACHE_FULL with %zu outstanding, cache size %zu", before, cache);
	} else if (!ha) {
		K.fail("C13", "add-unexpected-error", sdk::err_name(res), "re-adding returned 0x%x", res);
	}
	after_api("readd");
}

void AsyncSim::op_free(const run::Op &op) {
	std::vector<HRec *> cand;
	for (auto &r : recs) if (r->held) cand.push_back(r.get());
	if (cand.empty()) return;
	HRec &r = *cand[(size_t)op.arg(0) % cand.size()];
	KSI_AsyncHandle_free(r.h);
	r.h = nullptr; r.held = false;
	K.ev("FREE #%d", r.idx);
}

void AsyncSim::op_run() {
	KSI_AsyncHandle *h = nullptr;
	size_t waiting = 0;
	K.api_begin("run");
	uint64_t rb = K.ev("RUN begin");
	int res = KSI_AsyncService_run(svc, &h, &waiting);
	uint64_t re = K.ev("RUN -> 0x%x handle=%d waiting=%zu", res, h != nullptr, waiting);
	run_calls.push_back({rb, re});
	if (res != KSI_OK) K.fail("C13", "run-returned-error", sdk::err_name(res), "KSI_AsyncService_run returned 0x%x", res);
	note_sent();
	refresh_frames();
	for (auto &r : recs) {
		if (!r->outstanding || !r->h || r->att.empty() || r->att.back().failed_run) continue;
		if (peek_handle_state(r->h) == KSI_ASYNC_STATE_RESPONSE_RECEIVED && !r->att.back().resp_run) r->att.back().resp_run = run_calls.size();
		if (peek_handle_state(r->h) == KSI_ASYNC_STATE_ERROR) { r->att.back().failed_run = run_calls.size(); r->att.back().failed_ms = K.now_ms; KSI_AsyncHandle_getError(r->h, &r->att.back().failed_err); }
	}
	last_run_gave_handle = h != nullptr;
	if (h) { if (ha) ha_on_returned(h, waiting); else on_returned(h, waiting); }
	else if (!ha) {
		struct peek_client pc;
		if (peek_client(svc, &pc) && waiting != outstanding() + conf_extra(pc))
			K.fail("C13", "waiting-count", "run", "run reports %zu waiting, model has %zu outstanding (+%d config)", waiting, outstanding(), pc.has_server_conf);
	}
	after_api("run");
}

void AsyncSim::after_api(const char *what) {
	size_t bound = 8 * eps.size() + 4;
	if (K.noprogress_in_call > bound)
		K.fail("C14", "spinning", what, "%llu simulated system calls without progress inside one %s call", (unsigned long long)K.noprogress_in_call, what);
	if (K.syscalls_in_call > 2 * K.bytes_in_call + 1000)
		K.fail("C14", "spinning", what, "%llu simulated system calls inside one %s call for %llu bytes moved", (unsigned long long)K.syscalls_in_call, what, (unsigned long long)K.bytes_in_call);
	monitor_counts(what);
}

void AsyncSim::monitor_counts(const char *where) {
	if (ha || !svc) return;
	size_t p = 0, r = 0;
	KSI_AsyncService_getPendingCount(svc, &p);
	KSI_AsyncService_getReceivedCount(svc, &r);
	struct peek_client pc;
	if (!peek_client(svc, &pc)) return;
	if (pc.pending + pc.received != pc.occupied + (size_t)pc.has_server_conf)
		K.fail("C13", "counter-identity", where, "pending %zu + received %zu != occupied cache slots %zu + config %d", pc.pending, pc.received, pc.occupied, pc.has_server_conf);
	if (p + r != outstanding() + conf_extra(pc))
		K.fail("C13", "pending-count", where, "getPendingCount %zu + getReceivedCount %zu != accepted-not-returned %zu (+%zu pushed configuration handle)", p, r, outstanding(), conf_extra(pc));
	// each of the two counts alone is bounded by the number of requests it can refer to
	if (p > outstanding() + conf_extra(pc) || r > outstanding() + conf_extra(pc))
		K.fail("C13", "pending-count", where, "getPendingCount %zu / getReceivedCount %zu with %zu accepted-not-returned request(s)", p, r, outstanding() + conf_extra(pc));
}

void AsyncSim::op_deliver(const run::Op &op) {
	auto st = streams_with_inflight();
	if (st.empty()) return;
	auto s = st[(size_t)op.arg(0) % st.size()];
	int64_t a = op.arg(1);
	size_t n = (size_t)(a < 0 ? 0 : a);
	if (a < 0) {
		// everything in flight except the last |a| bytes (cuts inside the tail of a PDU)
		size_t inflight = s.first >= 0 ? N.conns[s.first]->inflight() : C.xfers[s.second]->inflight();
		if (inflight <= (size_t)(-a)) return;
		n = inflight - (size_t)(-a);
	}
	if (s.first >= 0) { size_t m = N.deliver(*N.conns[s.first], n); if (n && m) K.count("fault.segmentation"); }
	else { size_t m = C.deliver(*C.xfers[s.second], n); if (n && m) K.count("fault.segmentation"); }
}

void AsyncSim::op_srvread(int ei) {
	SimEndpoint &e = eps[(size_t)ei % eps.size()];
	if (e.http) return;
	for (auto &cp : N.conns) {
		Conn &c = *cp;
		if (c.ep != e.net_ep || c.st != Conn::ESTABLISHED) continue;
		for (;;) {
			std::string av = N.srv_peek(c);
			size_t fl = frame_len(av, 0);
			if (fl == 0 || fl > av.size()) break;
			std::string pdu = N.srv_take(c, fl);
			SrvReq rq;
			rq.ep = (int)(&e - &eps[0]);
			rq.conn = c.idx;
			rq.recv_seq = K.ev("srv ep%d read request %zu bytes", rq.ep, fl);
			parse_request(pdu, e.cfg.key, rq.info);
			e.request_log.push_back(rq.info);
			e.pending.push_back(rq);
		}
	}
}

void AsyncSim::send_reply(SimEndpoint &e, SrvReq &rq, int behav, uint64_t subseed) {
	ReplyMeta meta;
	std::string bytes = svc_ext ? world.ext_reply(rq.info, e.cfg, behav, subseed, meta) : world.aggr_reply(rq.info, e.cfg, behav, subseed, meta);
	reply_label[bytes] = meta.behav;
	rq.last_reply = bytes;
	rq.answered = true;
	K.ev("srv ep%d reply id=%llx behav=%s bytes=%zu", rq.ep, (unsigned long long)rq.info.id, behav_name(meta.behav), bytes.size());
	K.count((std::string("reply.") + behav_name(meta.behav)).c_str());
	emit(e, rq.conn, rq.xfer, bytes);
}

void AsyncSim::send_conf_reply(SimEndpoint &e, SrvReq &rq, int sb, uint64_t s2) {
	ConfVals cv;
	if (!svc_ext) { cv.max_level = 1 + s2 % 20; cv.aggr_period = 100 + s2 % 5000; cv.max_requests = 1 + s2 % 1000; }
	else { cv.max_requests = 1 + s2 % 1000; cv.cal_first = 1400000000 + s2 % 1000; cv.cal_last = world.head(); }
	std::string bytes = sb == B_ERROR_PDU ? world.error_pdu(e.cfg, 0x0101, "ref error pdu") : world.seal(e.cfg, true, {conf_tlv(0x04, cv, e.cfg.extender)}, sb, s2);
	reply_label[bytes] = sb == B_HONEST ? B_CONF_ONLY : sb;
	rq.last_reply = bytes; rq.answered = true;
	K.ev("srv ep%d configuration reply behav=%s bytes=%zu", rq.ep, behav_name(sb), bytes.size());
	K.count("reply.configuration");
	emit(e, rq.conn, rq.xfer, bytes);
}

void AsyncSim::op_reply(const run::Op &op) {
	// pick an endpoint with pending requests
	std::vector<std::pair<int, int>> cand;
	for (size_t i = 0; i < eps.size(); i++) for (size_t j = 0; j < eps[i].pending.size(); j++) cand.push_back({(int)i, (int)j});
	if (cand.empty()) return;
	auto pick = cand[(size_t)op.arg(0) % cand.size()];
	SimEndpoint &e = eps[pick.first];
	SrvReq rq = e.pending[pick.second];
	e.pending.erase(e.pending.begin() + pick.second);
	int behav = (int)(op.arg(1) % B__COUNT);
	if (plan.c("adv", 0) == 0 || e.honest_only) behav = B_HONEST;
	if (e.cfg.pdu_ver == 1 && (behav == B_CONF_ONLY || behav == B_WITH_CONF)) behav = B_HONEST;
	if (rq.info.has_conf_req && !rq.info.has_req) {
		// a configuration request: the reply is a configuration PDU (sealed with the behaviour's MAC / framing deviation, if any)
		static const int seal_only[] = {B_HONEST, B_HONEST, B_HONEST, B_BAD_MAC, B_OTHER_KEY, B_OTHER_ALG, B_NO_MAC, B_ERROR_PDU};
		int sb = (plan.c("adv", 0) == 0 || e.honest_only) ? B_HONEST : seal_only[(size_t)op.arg(1) % 8];
		if (sb != B_HONEST) note_fault("adversarial_reply");
		send_conf_reply(e, rq, sb, (uint64_t)op.arg(2));
		e.answered.push_back(rq);
		if (e.answered.size() > 64) e.answered.erase(e.answered.begin());
		return;
	}
	if (!rq.info.has_id) behav = B_ERROR_PDU;
	if (ha && (behav == B_CONF_ONLY || behav == B_WITH_CONF)) {
		// C15 compares the consolidated configuration with a fold over one configuration per endpoint (DESIGN.md 6, C15)
		if (e.pushed_conf) behav = B_HONEST; else e.pushed_conf = true;
	}
	if (behav != B_HONEST) note_fault("adversarial_reply");
	// arg 3: pad the reply PDU to one of the sizes around the largest legal PDU (version 2 only)
	static const size_t pads[] = {0, 65535, 65536, 65537, 65538, 65539, 32768, 65534};
	world.pad_total = e.cfg.pdu_ver == 2 ? pads[(size_t)op.arg(3) % 8] : 0;
	if (world.pad_total) K.count("probe.big_reply_pdu");
	send_reply(e, rq, behav, (uint64_t)op.arg(2));
	world.pad_total = 0;
	e.answered.push_back(rq);
	if (e.answered.size() > 64) e.answered.erase(e.answered.begin());
}

void AsyncSim::op_dup(const run::Op &op) {
	std::vector<std::pair<int, int>> cand;
	// (only replies to requests of the connection that is live now: a server does not replay into a new connection what it
	// answered on a connection of an earlier service object, where the same ids meant other requests)
	for (size_t i = 0; i < eps.size(); i++) if (!eps[i].http) {
		Conn *lc = N.live_conn_of(eps[i].net_ep);
		for (size_t j = 0; j < eps[i].answered.size(); j++) if (generation == 0 || (lc && eps[i].answered[j].conn == lc->idx)) cand.push_back({(int)i, (int)j});
	}
	if (cand.empty() || plan.c("adv", 0) == 0) return;
	auto pick = cand[(size_t)op.arg(0) % cand.size()];
	SimEndpoint &e = eps[pick.first];
	if (e.honest_only) return;
	SrvReq &rq = e.answered[pick.second];
	note_fault("duplicate_reply");
	K.ev("srv ep%d duplicate reply id=%llx", pick.first, (unsigned long long)rq.info.id);
	emit(e, -1, -1, rq.last_reply);
}

void AsyncSim::op_premature(const run::Op &op) {
	if (ha || plan.c("adv", 0) == 0 || eps[0].http || eps[0].honest_only) return;
	note_sent();
	std::vector<std::pair<HRec *, Attempt *>> cand;
	for (auto &r : recs) if (r->outstanding && !r->is_conf && !r->att.empty() && r->att.back().sent_seq == 0) cand.push_back({r.get(), &r->att.back()});
	if (cand.empty()) return;
	Conn *c = N.live_conn_of(eps[0].net_ep);
	if (!c || c->st != Conn::ESTABLISHED) return;
	auto pk = cand[(size_t)op.arg(0) % cand.size()];
	SrvReq rq;
	rq.ep = 0; rq.conn = c->idx;
	rq.info.framed = true; rq.info.ver = eps[0].cfg.pdu_ver; rq.info.is_ext = svc_ext;
	rq.info.has_id = true; rq.info.id = pk.second->id;
	rq.info.hash = pk.first->hash; rq.info.has_hash = true; rq.info.level = pk.first->level; rq.info.has_level = true;
	rq.info.agg_time = pk.first->agg_time; rq.info.has_agg_time = true; rq.info.pub_time = pk.first->pub_time; rq.info.has_pub_time = pk.first->has_pub;
	note_fault("premature_reply");
	K.count("probe.reply_before_send_complete");
	send_reply(eps[0], rq, B_HONEST, (uint64_t)op.arg(1));
}

void AsyncSim::op_pushconf(const run::Op &op) {
	SimEndpoint &e = eps[(size_t)op.arg(0) % eps.size()];
	if (e.cfg.pdu_ver != 2) return;
	if (plan.c("adv", 0) == 0 && !ha) return;
	ConfVals cv;
	// field value classes: 0 absent, 1..3 in range, 4 far too large, 5 far too small (where that exists)
	// (dlo..dhi: the documented range; class 3 sits on or right next to its bounds half of the time)
	auto pick = [](int64_t cls, uint64_t lo, uint64_t hi, uint64_t far_hi, uint64_t far_lo, uint64_t var, uint64_t dlo = 0, uint64_t dhi = 0) -> uint64_t {
		switch (cls % 6) {
			case 0: return 0;
			case 1: return lo + var % (hi - lo + 1);
			case 2: return lo + (var / 7) % (hi - lo + 1);
			case 3: {
				if (dhi == 0 || (var >> 5) % 2 == 0) return lo + (var / 3) % (hi - lo + 1);
				const uint64_t edge[] = {dlo, dhi, dlo + 1, dhi - 1, dlo > 0 ? dlo - 1 : dhi + 1, dhi + 1};
				return edge[(var >> 6) % 6];
			}
			// far too large: beyond the range, or an in-range value plus 2^32 / 2^63 (what a 32-bit or signed reading would take for in range)
			case 4: return (var >> 3) % 3 == 0 ? far_hi + var % 1000 : ((var >> 3) % 3 == 1 ? (1ULL << 32) : (1ULL << 63)) + lo + var % (hi - lo + 1);
			default: return far_lo;
		}
	};
	uint64_t var = (uint64_t)op.arg(5);
	if (!svc_ext) {
		cv.max_level = pick(op.arg(1), 2, 19, 100, 0, var, 1, 20);
		cv.aggr_period = pick(op.arg(2), 300, 10000, 100000, 10, var, 100, 20000);
		cv.max_requests = pick(op.arg(3), 2, 8000, 100000, 0, var, 1, 16000);
	} else {
		cv.max_requests = pick(op.arg(1), 2, 8000, 100000, 0, var, 1, 16000);
		cv.cal_first = pick(op.arg(2), 1200000000, 1400000000, 1400000001 + var % 1000, 500000000 + var % 1000, var);
		cv.cal_last = pick(op.arg(3), 1450000000, 1600000000, 1600000001 + var % 1000, 400000000 + var % 1000, var);
		if (op.arg(2) % 6 == 4) cv.cal_first = 1300000000 + var % 1000; // "far too large" has no meaning for times; keep valid
		if (op.arg(3) % 6 == 4) cv.cal_last = 1500000000 + var % 1000;
	}
	if (!cv.any()) return;
	if (ha && e.pushed_conf) return;
	Conn *c = e.http ? nullptr : N.live_conn_of(e.net_ep);
	int xfer = -1;
	if (e.http) { for (auto &xp : C.xfers) if (xp->ep == e.net_ep && xp->st == Xfer::SENT && !xp->responded) { xfer = xp->idx; break; } if (xfer < 0) return; }
	else if (!c || c->st != Conn::ESTABLISHED) return;
	std::string bytes = world.conf_push(e.cfg, cv);
	reply_label[bytes] = B_CONF_ONLY;
	ConfEvent ce; ce.seq = K.ev("srv ep%zu push conf lvl=%llu per=%llu req=%llu first=%llu last=%llu", (size_t)(&e - &eps[0]),
		(unsigned long long)cv.max_level, (unsigned long long)cv.aggr_period, (unsigned long long)cv.max_requests, (unsigned long long)cv.cal_first, (unsigned long long)cv.cal_last);
	ce.cv = cv; ce.via_callback = false; ce.ep = (int)(&e - &eps[0]);
	conf_events.push_back(ce);
	K.count("probe.conf_push");
	e.pushed_conf = true;
	if (e.http) {
		// over HTTP a push can only travel in a response body; it answers (and thereby consumes) that transfer's request
		for (size_t j = 0; j < e.pending.size(); j++) if (e.pending[j].xfer == xfer) { e.pending.erase(e.pending.begin() + j); break; }
	}
	emit(e, c ? c->idx : -1, xfer, bytes);
}

void AsyncSim::op_tamper(const run::Op &op) {
	if (plan.c("adv", 0) == 0) return;
	auto st = streams_with_inflight();
	if (st.empty()) return;
	auto s = st[(size_t)op.arg(0) % st.size()];
	std::string *buf; size_t from;
	if (s.first >= 0) { Conn &c = *N.conns[s.first]; buf = &c.s2c_all; from = c.s2c_arrived; }
	else { Xfer &x = *C.xfers[s.second]; buf = &x.resp_body; from = x.arrived; }
	size_t n = buf->size() - from;
	if (n == 0) return;
	size_t pos = from + (size_t)op.arg(2) % n;
	switch (op.arg(1) % 4) {
		case 0: (*buf)[pos] ^= (char)(1 << (op.arg(3) % 8)); break;
		case 1: { size_t k = 1 + (size_t)op.arg(3) % std::min<size_t>(n, 40); buf->erase(buf->size() - k); break; }
		case 2: { size_t k = 1 + (size_t)op.arg(3) % std::min<size_t>(n - (pos - from), 24); buf->insert(pos, buf->substr(pos, k)); break; }
		default: { size_t k = 1 + (size_t)op.arg(3) % std::min<size_t>(n - (pos - from), 16); for (size_t i = 0; i < k; i++) (*buf)[pos + i] = 0; break; }
	}
	note_fault("tamper");
	stream_corrupted = true;
	K.ev("tamper kind=%lld at %zu", (long long)(op.arg(1) % 4), pos);
}

void AsyncSim::op_fault(const run::Op &op) {
	if (faults_stopped) return;
	SimEndpoint &e = eps[(size_t)op.arg(0) % eps.size()];
	NetEndpoint &ne = N.eps[e.net_ep];
	const std::string &k = op.k;
	if (k == "CLOSE" || k == "RESET") {
		bool any = false;
		if (!e.http) {
			Conn *c = N.live_conn_of(e.net_ep);
			if (c && c->st == Conn::ESTABLISHED) {
				any = true;
				if (k == "CLOSE") { N.srv_close(*c); if (op.arg(1) % 2 == 0) N.deliver(*c, 0); }
				else N.srv_reset(*c);
			}
		} else {
			for (auto &xp : C.xfers) if (xp->ep == e.net_ep && (xp->st == Xfer::SENT || xp->st == Xfer::CONNECTING)) {
				any = true;
				if (k == "CLOSE") C.srv_close(*xp); else C.srv_reset(*xp);
				if (op.arg(1) % 2) break;
			}
		}
		if (any) {
			note_fault(k == "CLOSE" ? "close" : "reset");
			// the server forgets what it was working on for that connection ("crash" of the peer)
			if (op.arg(1) % 3 == 0) e.pending.clear();
		}
	} else if (k == "REFUSE") { ne.refuse_next = 1 + (int)(op.arg(1) % 3); K.count("fault.refuse_armed"); }
	else if (k == "BLACKHOLE") { ne.blackhole = op.arg(1) % 2; if (ne.blackhole) K.count("fault.blackhole_armed"); }
	else if (k == "DNSFAIL") { ne.dnsfail_next = 1 + (int)(op.arg(1) % 2); K.count("fault.dnsfail_armed"); }
	else if (k == "SENDBUF") { ne.sndbuf_cap = (size_t)std::max<int64_t>(1, op.arg(1)); K.count("fault.sendbuf_set"); }
	else if (k == "SENDCUT") { ne.send_cut = (size_t)op.arg(1); }
	else if (k == "RECVCUT") { ne.recv_cut = (size_t)op.arg(1); C.write_cut = (size_t)op.arg(1); }
	else if (k == "CONNDELAY") { ne.connect_delay_ms = (int)op.arg(1); if (op.arg(1)) K.count("fault.connect_delay"); }
	else if (k == "HTTPSTATUS") {
		if (!e.http) return;
		for (size_t j = 0; j < e.pending.size(); j++) {
			SrvReq rq = e.pending[j];
			static const long codes[] = {400, 401, 404, 500, 502, 503};
			long code = codes[op.arg(1) % 6];
			C.respond(*C.xfers[rq.xfer], code, "<html>error</html>");
			e.pending.erase(e.pending.begin() + j);
			note_fault("http_status");
			break;
		}
	}
}

void AsyncSim::exec(const run::Op &op) {
	const std::string &k = op.k;
	if (k == "ADD") op_add(op);
	else if (k == "READD") op_readd(op);
	else if (k == "FREE") op_free(op);
	else if (k == "RUN") op_run();
	else if (k == "DELIVER") op_deliver(op);
	else if (k == "SRVREAD") op_srvread((int)op.arg(0));
	else if (k == "REPLY") op_reply(op);
	else if (k == "DUP") op_dup(op);
	else if (k == "PREMATURE") op_premature(op);
	else if (k == "PUSHCONF") op_pushconf(op);
	else if (k == "TAMPER") op_tamper(op);
	else if (k == "TICK") { K.advance(std::max<int64_t>(1, op.arg(0))); K.ev("TICK %lld", (long long)op.arg(0)); }
	else if (k == "JUMP") {
		if (faults_stopped) return;
		K.jump(op.arg(0) * 1000);
		K.ev("JUMP %lld s", (long long)op.arg(0));
		if (op.arg(0) < 0) backward_jump = true;
		note_fault(op.arg(0) < 0 ? "clock_jump_back" : "clock_jump_fwd");
	}
	else if (k == "QUIESCE") quiesce();
	else if (k == "RECREATE") op_recreate();
	else if (k == "REPOINT") op_repoint();
	else if (k == "GROWCACHE") {
		// the application enlarges the request cache while requests are outstanding (the id cursor may have wrapped by then)
		if (ha || !svc || in_quiesce) return;
		size_t bigger = cache + 1 + (size_t)op.arg(0) % 6;
		int res = KSI_AsyncService_setOption(svc, KSI_ASYNC_OPT_REQUEST_CACHE_SIZE, (void *)bigger);
		K.ev("GROWCACHE %zu -> %zu : 0x%x (%zu outstanding)", cache, bigger, res, outstanding());
		K.count("probe.cache_grown");
		if (outstanding() > 0) K.count("probe.cache_grown_with_outstanding");
		if (res == KSI_OK) cache = bigger;
		else K.fail("C13", "cache-growth-refused", sdk::err_name(res), "enlarging the request cache from %zu to %zu failed with 0x%x", cache, bigger, res);
		after_api("setoption");
	}
	else if (k == "SILENT") { if (ha) eps[(size_t)op.arg(0) % eps.size()].silent = true; }
	else op_fault(op);
	record_state();
}

void AsyncSim::record_state() {
	uint64_t h = 0x1234567;
	std::vector<int> sts;
	for (auto &r : recs) if (r->outstanding && r->h) sts.push_back(peek_handle_state(r->h));
	std::sort(sts.begin(), sts.end());
	for (int s : sts) h = mix(h, (uint64_t)s);
	h = mix(h, outstanding());
	for (auto &e : eps) {
		if (!e.http) {
			Conn *c = N.live_conn_of(e.net_ep);
			h = mix(h, c ? (uint64_t)c->st * 8 + c->rst * 4 + c->fin_readable * 2 + c->srv_closed : 99);
			size_t rd = c ? c->readable() : 0;
			h = mix(h, rd == 0 ? 0 : rd < 4 ? 1 : rd < 256 ? 2 : rd < 65536 ? 3 : 4);
			h = mix(h, e.pending.size() > 3 ? 3 : e.pending.size());
		} else {
			int sent = 0, conn = 0;
			for (auto &xp : C.xfers) if (xp->ep == e.net_ep) { if (xp->st == Xfer::SENT) sent++; if (xp->st == Xfer::CONNECTING) conn++; }
			h = mix(h, (uint64_t)std::min(sent, 3) * 4 + std::min(conn, 3));
		}
	}
	struct peek_client pc;
	if (!ha && svc && peek_client(svc, &pc)) { h = mix(h, pc.occupied); h = mix(h, pc.request_count_offset % 4); h = mix(h, (uint64_t)pc.has_server_conf); }
	abstract_states.push_back(h);
}

// ---------------------------------------------------------------------------------------------------------
// oracles at return time (plain async service)

static int svc_status_to_err(bool ext, uint64_t st) {
	switch (st) {
		case 0: return KSI_OK;
		case 0x0101: return KSI_SERVICE_INVALID_REQUEST;
		case 0x0102: return KSI_SERVICE_AUTHENTICATION_FAILURE;
		case 0x0103: return KSI_SERVICE_INVALID_PAYLOAD;
		case 0x0104: return ext ? KSI_SERVICE_EXTENDER_INVALID_TIME_RANGE : KSI_SERVICE_AGGR_REQUEST_TOO_LARGE;
		case 0x0105: return ext ? KSI_SERVICE_EXTENDER_REQUEST_TIME_TOO_OLD : KSI_SERVICE_AGGR_REQUEST_OVER_QUOTA;
		case 0x0106: return ext ? KSI_SERVICE_EXTENDER_REQUEST_TIME_TOO_NEW : KSI_SERVICE_AGGR_TOO_MANY_REQUESTS;
		case 0x0107: return ext ? KSI_SERVICE_EXTENDER_REQUEST_TIME_IN_FUTURE : KSI_SERVICE_AGGR_INPUT_TOO_LONG;
		case 0x0200: return KSI_SERVICE_INTERNAL_ERROR;
		case 0x0201: return ext ? KSI_SERVICE_EXTENDER_DATABASE_MISSING : KSI_SERVICE_UNKNOWN_ERROR;
		case 0x0202: return ext ? KSI_SERVICE_EXTENDER_DATABASE_CORRUPT : KSI_SERVICE_UNKNOWN_ERROR;
		case 0x0300: return KSI_SERVICE_UPSTREAM_ERROR;
		case 0x0301: return KSI_SERVICE_UPSTREAM_TIMEOUT;
		default: return KSI_SERVICE_UNKNOWN_ERROR;
	}
}

// the signature's chains are those of the reply, except that the SDK adds the requested level to the first level correction
bool sig_matches_reply(const ref::SigView &v, const ref::RespInfo &info, uint64_t level) {
	std::vector<AggChain> theirs;
	for (auto &enc : info.chain_encs) { Tlv t; size_t u; AggChain c; if (!Tlv::parse1(enc, 0, t, u) || !parse_agg_chain(t, c)) return false; theirs.push_back(c); }
	if (theirs.size() != v.agg.size()) return false;
	std::stable_sort(theirs.begin(), theirs.end(), [](const AggChain &x, const AggChain &y) { return x.index.size() > y.index.size(); });
	for (size_t ci = 0; ci < theirs.size(); ci++) {
		const AggChain &x = v.agg[ci], &y = theirs[ci];
		if (x.time != y.time || x.index != y.index || x.input != y.input || x.alg != y.alg || x.links.size() != y.links.size()) return false;
		for (size_t li = 0; li < x.links.size(); li++) {
			const Link &a1 = x.links[li], &b1 = y.links[li];
			uint64_t want = b1.lc + ((ci == 0 && li == 0) ? level : 0);
			if (a1.left != b1.left || a1.kind != b1.kind || a1.sib != b1.sib || a1.lc != want) return false;
		}
	}
	return !v.has_cal || v.cal_raw == info.cal_enc;
}

void AsyncSim::on_returned(KSI_AsyncHandle *h, size_t waiting) {
	int state = 0, err = 0; long ext = 0;
	KSI_AsyncHandle_getState(h, &state);
	KSI_AsyncHandle_getError(h, &err);
	KSI_AsyncHandle_getExtError(h, &ext);
	HRec *rec = nullptr;
	for (auto &r : recs) if (r->h == h) rec = r.get();
	if (!rec) {
		if (state == KSI_ASYNC_STATE_PUSH_CONFIG_RECEIVED) {
			KSI_Config *cfg = nullptr;
			KSI_AsyncHandle_getConfig(h, &cfg);
			K.count("probe.conf_handle");
			if (!cfg) K.fail("C13", "config-handle-empty", "run", "PUSH_CONFIG_RECEIVED handle without a configuration");
			else {
				ConfVals cv = read_config(cfg);
				bool ok = false;
				for (auto &f : frames) if (!f.bad && f.info.has_conf && f.arrive_seq <= K.seq && conf_eq(f.info.conf, cv)) ok = true;
				if (!ok) K.fail("C06", "config-without-authentic-pdu", "handle", "configuration handle returned but no authentic configuration PDU with these values arrived");
			}
			if (conf_cb) K.fail("C13", "config-handle-despite-callback", "run", "configuration handle returned although a push-config callback is set");
			KSI_AsyncHandle_free(h);
		} else {
			K.fail("C13", "phantom-handle", "run", "run returned a handle that was never submitted (state %d)", state);
		}
		return;
	}
	if (!rec->outstanding) {
		K.fail("C13", "returned-twice", "run", "handle #%d returned although it is not outstanding (state %d)", rec->idx, state);
		return;
	}
	check_outgoing(false);
	Attempt &a = rec->att.back();
	a.returned = true; a.returned_seq = K.ev("RETURNED #%d state=%d err=0x%x ext=%ld", rec->idx, state, err, ext);
	a.state = state; a.err = err; a.ext = ext;
	rec->outstanding = false; rec->held = true; rec->hold_state = state;
	K.count(state == KSI_ASYNC_STATE_RESPONSE_RECEIVED ? "outcome.response" : "outcome.error");
	if (K.failed()) return; // the outgoing stream is already broken: later symptoms are consequences
	if (rec->is_conf && state == KSI_ASYNC_STATE_PUSH_CONFIG_RECEIVED) check_conf_completion(*rec, a);
	else if (rec->is_conf && state == KSI_ASYNC_STATE_ERROR) { std::string why; if (a.err == KSI_OK) K.fail("C13", "error-state-without-code", "run", "configuration request #%d in ERROR state with error code 0", rec->idx); else if (!cause_exists(a, a.err, why)) { char key[64]; snprintf(key, sizeof key, "err-0x%x", a.err); K.fail("C13", "error-without-cause", key, "configuration request #%d failed with 0x%x (%s) but: %s", rec->idx, a.err, sdk::err_name(a.err), why.c_str()); } }
	else if (state == KSI_ASYNC_STATE_RESPONSE_RECEIVED && !rec->is_conf) check_response(*rec, a);
	else if (state == KSI_ASYNC_STATE_ERROR) check_error(*rec, a);
	else K.fail("C13", "non-final-state", "run", "handle #%d returned in state %d", rec->idx, state);
	struct peek_client pc;
	if (peek_client(svc, &pc) && waiting != outstanding() + conf_extra(pc))
		K.fail("C13", "waiting-count", "run", "run reports %zu waiting, model has %zu outstanding (+%zu pushed configuration)", waiting, outstanding(), conf_extra(pc));
}

void AsyncSim::check_response(HRec &r, Attempt &a) {
	uint64_t hid = 0;
	KSI_AsyncHandle_getRequestId(r.h, &hid);
	if (hid != a.id) K.fail("C13", "request-id-changed", "response", "handle #%d id 0x%llx at return, 0x%llx when accepted", r.idx, (unsigned long long)hid, (unsigned long long)a.id);
	std::vector<const Frame *> good, prem_same_run, prem_all;
	bool premature = false, premature_same_run = false, unauth = false, anyid = false, only_unauthentic = true;
	for (auto &f : frames) {
		if (!f.info.has_id || f.info.id != a.id || f.arrive_seq == 0 || f.arrive_seq > K.seq) continue;
		anyid = true;
		if (!f.clean_resp) { unauth = true; if (f.authentic) only_unauthentic = false; continue; }
		only_unauthentic = false;
		if (a.sent_seq == 0 || f.arrive_seq <= a.sent_seq) {
			premature = true;
			prem_all.push_back(&f);
			// the specific shape: the reply was taken from the socket in the very run call that afterwards completed the send
			uint64_t rb = a.sent_seq ? run_begin_containing(a.sent_seq) : 0;
			if (rb && f.read_seq > rb && f.read_seq < a.sent_seq) { premature_same_run = true; prem_same_run.push_back(&f); }
			continue;
		}
		good.push_back(&f);
	}
	if (a.resp_run && a.resp_run <= run_calls.size() && (a.sent_seq == 0 || a.sent_seq > run_calls[a.resp_run - 1].second)) {
		K.fail("C13", "response-matched-before-request-was-sent", "run", "handle #%d was given a response in run call %zu, before its request had been completely sent", r.idx, a.resp_run);
		return;
	}
	if (good.empty()) {
		const char *key = premature ? "reply-arrived-before-the-request-was-sent-but-was-matched-after" : unauth ? "only-unauthentic-or-error-status-reply" : anyid ? "reply-not-eligible" : "no-reply-with-this-id";
		// every PDU that bore this id failed authentication: the content that reached the caller is unauthenticated (C06)
		if (!premature && unauth && only_unauthentic)
			K.fail("C06", "content-from-unauthentic-pdu", "response", "handle #%d (id 0x%llx) completed with a response, but every PDU bearing its id failed authentication (MAC, algorithm, version or missing header / MAC)", r.idx, (unsigned long long)a.id);
		else
		K.fail("C13", "response-without-valid-reply", key, "handle #%d (id 0x%llx, sent_seq %llu) completed with a response, but no authentic status-0 reply with its id arrived after it was sent",
		       r.idx, (unsigned long long)a.id, (unsigned long long)a.sent_seq);
		return;
	}
	if (a.id >> 32) K.count("probe.generation_nonzero");
	for (auto *g : good) if (g->bytes.size() >= 65535) { K.count("probe.big_reply_pdu_accepted"); break; }
	// the response object must be one of those replies
	if (!svc_ext) {
		KSI_AggregationResp *resp = nullptr;
		KSI_AsyncHandle_getAggregationResp(r.h, &resp);
		KSI_Integer *rid = nullptr;
		if (!resp || KSI_AggregationResp_getRequestId(resp, &rid) != KSI_OK || !rid || KSI_Integer_getUInt64(rid) != a.id)
			K.fail("C13", "response-object-id", "response", "handle #%d carries a response object with another request id", r.idx);
		KSI_Signature *sig = nullptr;
		int res = KSI_AsyncHandle_getSignature(r.h, &sig);
		if (res == KSI_OK && sig) {
			std::string bytes = sdk::serialize(sig);
			SigView v;
			bool parsed = parse_signature(bytes, v);
			SigFacts f = parsed ? evaluate(v) : SigFacts();
			bool ok = parsed && f.consistent && f.input_hash == r.hash && f.first_lc >= r.level;
			if (!ok) K.fail("C07", "signature-accepted-but-invalid", f.why.empty() ? "hash-or-level" : f.why, "handle #%d: getSignature succeeded but the signature is not valid for the requested hash/level (%s)", r.idx, f.why.c_str());
			// content identity: its chains are those of one eligible reply
			auto matches = [&](const Frame *g) { return sig_matches_reply(v, g->info, r.level); };
			bool same = false;
			for (auto *g : good) if (matches(g)) same = true;
			if (parsed && !same) for (auto *g : prem_all) if (matches(g)) {
				K.fail("C13", "response-without-valid-reply", "reply-arrived-before-the-request-was-sent-but-was-matched-after", "handle #%d: the response it carries is a reply that arrived before the request was sent (an eligible reply arrived later and was ignored)", r.idx);
				same = true;
			}
			if (parsed && !same) K.fail("C13", "response-content-mismatch", "signature", "handle #%d: signature content is not that of any eligible reply", r.idx);
			K.count("outcome.signature");
			KSI_Signature_free(sig);
			// asking again must not yield another verdict or another signature (the call is a getter on a completed handle)
			if (plan.c("getsig_twice", 1)) {
				KSI_Signature *sig2 = nullptr;
				int res2 = KSI_AsyncHandle_getSignature(r.h, &sig2);
				K.ev("getSignature again #%d -> 0x%x", r.idx, res2);
				if (res2 == KSI_OK && sig2) {
					std::string b2 = sdk::serialize(sig2);
					if (b2 != bytes) {
						SigView v2; bool p2 = parse_signature(b2, v2);
						SigFacts f2 = p2 ? evaluate(v2) : SigFacts();
						bool ok2 = p2 && f2.consistent && f2.input_hash == r.hash && f2.first_lc >= r.level;
						if (!ok2) K.fail("C07", "signature-accepted-but-invalid", "second-getSignature", "handle #%d: a second getSignature call succeeded with a signature that is not valid for the requested hash/level (%s)", r.idx, f2.why.c_str());
						else K.fail("C07", "signature-differs-between-calls", "second-getSignature", "handle #%d: a second getSignature call returned a different (valid) signature", r.idx);
					}
					K.count("probe.getsignature_twice");
				} else if (ok) K.fail("C07", "valid-signature-refused-on-second-call", sdk::err_name(res2), "handle #%d: the first getSignature call succeeded, the second failed with 0x%x", r.idx, res2);
				KSI_Signature_free(sig2);
			}
		} else {
			bool honest = false;
			for (auto *g : good) if (g->behav == B_HONEST || g->behav == B_WITH_CONF) honest = true;
			// the response object is the *last* eligible reply processed; only flag when every eligible reply was honest
			bool all_honest = honest;
			for (auto *g : good) if (!(g->behav == B_HONEST || g->behav == B_WITH_CONF)) all_honest = false;
			if (all_honest) K.fail("C13", "honest-reply-rejected", sdk::err_name(res), "handle #%d: getSignature failed (0x%x) although the reply was honest", r.idx, res);
			K.count("outcome.signature_refused");
		}
	} else {
		KSI_ExtendResp *resp = nullptr;
		KSI_AsyncHandle_getExtendResp(r.h, &resp);
		KSI_Integer *rid = nullptr;
		if (!resp || KSI_ExtendResp_getRequestId(resp, &rid) != KSI_OK || !rid || KSI_Integer_getUInt64(rid) != a.id)
			K.fail("C13", "response-object-id", "response", "handle #%d carries a response object with another request id", r.idx);
		KSI_CalendarHashChain *cc = nullptr;
		if (resp && KSI_ExtendResp_getCalendarHashChain(resp, &cc) == KSI_OK && cc) {
			KSI_Integer *at = nullptr, *pt = nullptr;
			KSI_CalendarHashChain_getAggregationTime(cc, &at);
			KSI_CalendarHashChain_getPublicationTime(cc, &pt);
			bool same = false;
			for (auto *g : good) if (g->info.has_cal && at && g->info.cal_agg == KSI_Integer_getUInt64(at) && pt && g->info.cal_pub == KSI_Integer_getUInt64(pt)) same = true;
			if (!same) for (auto *g : prem_all) if (g->info.has_cal && at && g->info.cal_agg == KSI_Integer_getUInt64(at) && pt && g->info.cal_pub == KSI_Integer_getUInt64(pt)) {
				K.fail("C13", "response-without-valid-reply", "reply-arrived-before-the-request-was-sent-but-was-matched-after", "handle #%d: the response it carries is a reply that arrived before the request was sent (an eligible reply arrived later and was ignored)", r.idx);
				same = true;
				break;
			}
			if (!same) K.fail("C13", "response-content-mismatch", "calendar", "handle #%d: calendar chain is not that of any eligible reply", r.idx);
		}
		if (r.sig_extend && !K.failed()) {
			// C08 through the asynchronous service: the extended signature keeps the aggregation chains, carries the reply's calendar
			// chain and exactly the supplied publication record, and is consistent - or no signature is produced
			KSI_Signature *ext = nullptr;
			int gs = KSI_AsyncHandle_getSignature(r.h, &ext);
			K.ev("extended signature of #%d -> 0x%x", r.idx, gs);
			if (gs == KSI_OK && ext) {
				std::string bytes = sdk::serialize(ext);
				SigView v, sv; bool parsed = parse_signature(bytes, v); parse_signature(r.src_sig, sv);
				SigFacts f = parsed ? evaluate(v) : SigFacts();
				if (!(parsed && f.consistent)) K.fail("C08", "extended-signature-inconsistent", f.why, "handle #%d: the extended signature is not internally consistent (%s)", r.idx, f.why.c_str());
				else {
					if (v.agg_raw != sv.agg_raw) K.fail("C08", "aggregation-chains-changed", "async", "handle #%d: extending changed the aggregation hash chains", r.idx);
					if (f.input_hash != r.src_hash) K.fail("C08", "document-hash-changed", "async", "handle #%d: the extended signature is for another document hash", r.idx);
					bool from_reply = false;
					for (auto *g : good) if (v.cal_raw == g->info.cal_enc) from_reply = true;
					if (!from_reply) K.fail("C08", "calendar-chain-not-the-replys", "async", "handle #%d: the extended signature does not carry an eligible reply's calendar chain", r.idx);
					if (v.has_auth) K.fail("C08", "auth-record-kept", "async", "handle #%d: the extended signature still carries a calendar authentication record", r.idx);
					if (r.pub_variant && (!v.has_pub || v.pub_time != r.pub_time || v.pub_hash != r.pub_root)) K.fail("C08", "publication-record-not-the-supplied-one", "async", "handle #%d: the extended signature does not carry the supplied publication record", r.idx);
					if (!r.pub_variant && v.has_pub) K.fail("C08", "publication-record-invented", "async", "handle #%d: the extended signature carries a publication record nobody supplied", r.idx);
					if (r.pub_variant == 2) K.fail("C08", "extended-to-a-publication-the-chain-does-not-reproduce", "async", "handle #%d: extending succeeded with a publication record whose hash is not the root of the reply's chain", r.idx);
				}
				K.count("outcome.extended_signature");
				KSI_Signature_free(ext);
			} else K.count("outcome.extended_signature_refused");
		}
	}
}

bool AsyncSim::cause_exists(const Attempt &a, int err, std::string &why) {
	uint64_t lo = a.accepted_seq, hi = K.seq;
	int64_t when_ms = a.failed_run ? a.failed_ms : K.now_ms; // the clock reading at which the SDK decided
	// connection-wide causes (error PDU, bad data, connection end) are noticed by the next run call; data that arrived
	// after the previous run call ended is processed together with this request
	uint64_t lo_conn = prev_run_end_before(a.accepted_seq);
	SimEndpoint &e = eps[0];
	auto conn_event = [&](std::initializer_list<const char *> kinds) {
		for (auto &cp : N.conns) {
			if (cp->ep != e.net_ep || cp->ended_seq < lo_conn || cp->ended_seq > hi) continue;
			for (auto k : kinds) if (cp->end_kind == k) return true;
		}
		return false;
	};
	auto bad_frame = [&]() { for (auto &f : frames) if (f.bad && f.arrive_seq >= lo_conn && f.arrive_seq <= hi) return true; return false; };
	auto xfer_fail = [&]() { for (auto &xp : C.xfers) if (xp->ep == e.net_ep && xp->st == Xfer::DONE && xp->result != CURLE_OK && xp->done_seq >= lo && xp->done_seq <= hi) return true; return false; };
	switch (err) {
		case KSI_NETWORK_RECIEVE_TIMEOUT:
			why = "receive timeout before the configured time elapsed";
			return a.disp_seq != 0 && (rcv_to == 0 || when_ms - a.disp_ms >= (int64_t)rcv_to * 1000);
		case KSI_NETWORK_SEND_TIMEOUT:
			why = "send timeout before the configured time elapsed";
			return snd_to == 0 || when_ms - a.accepted_ms >= (int64_t)snd_to * 1000;
		case KSI_NETWORK_CONNECTION_TIMEOUT:
			why = "connection timeout without a connect outstanding that long";
			for (auto &cp : N.conns) {
				if (cp->ep != e.net_ep || cp->established_seq != 0 || cp->connect_seq == 0) continue;
				if (!cp->client_closed || cp->ended_seq < lo) continue;
				if (con_to == 0 || when_ms - cp->opened_ms >= (int64_t)con_to * 1000) return true;
			}
			return false;
		case KSI_ASYNC_CONNECTION_CLOSED:
			why = "connection-closed error but the connection did not end";
			if (conn_event({"fin", "rst", "refused"}) || connwide_cause(a)) return true;
			// the client itself gives up a connection whose stream is stuck in the middle of a request that timed out
			if (a.failed_run && conn_event({"clientclose"}))
				for (auto &r : recs) for (auto &at : r->att) if (at.failed_run == a.failed_run && at.failed_err == KSI_NETWORK_SEND_TIMEOUT) return true;
			// ... or whose last request it will not finish (a partially sent configuration request that was completed meanwhile):
			// the outgoing stream of the connection it closed ends in the middle of a PDU
			for (auto &cp : N.conns) {
				if (cp->ep != e.net_ep || cp->end_kind != "clientclose" || cp->ended_seq < lo_conn || cp->ended_seq > hi) continue;
				size_t off = 0;
				while (off < cp->c2s.size()) { size_t fl = frame_len(cp->c2s, off); if (fl == 0 || off + fl > cp->c2s.size()) break; off += fl; }
				if (off < cp->c2s.size()) return true;
			}
			return false;
		case KSI_NETWORK_ERROR:
			why = "network error without a refused / unresolvable / failed transfer";
			// (a connection reset before the client has seen it established is reported like a failed connect)
			if (conn_event({"refused", "rst"})) return true;
			for (auto &d : N.dnsfail_log) if (d.first >= lo && d.first <= hi) return true;
			if (xfer_fail()) return true;
			if (e.http && connwide_cause(a)) return true;
			return false;
		case KSI_HTTP_ERROR:
			why = "HTTP error without a 4xx/5xx response";
			for (auto &xp : C.xfers) if (xp->ep == e.net_ep && xp->http_code >= 400 && xp->done_seq >= lo && xp->done_seq <= hi) return true;
			return false;
		default: break;
	}
	if (err >= 0x400 && err < 0x600) {
		why = "service error without such a status in a reply for this request or an error PDU";
		for (auto &f : frames) {
			if (f.arrive_seq == 0 || f.arrive_seq > hi) continue;
			if (f.info.has_error && svc_status_to_err(svc_ext, f.info.err_status) == err && connwide_cause(a)) return true;
			if (!f.bad && f.arrive_seq >= lo_conn && f.info.has_resp && f.info.has_id && f.info.id == a.id && f.info.status != 0 && svc_status_to_err(svc_ext, f.info.status) == err) return true;
		}
		// PDU-version mismatch codes are produced for frames of the other version
		return connwide_cause(a);
	}
	why = "error without malformed, unauthenticated or request-contradicting data on the connection";
	return connwide_cause(a);
}

static bool is_connwide_err(int err) {
	switch (err) {
		case KSI_NETWORK_RECIEVE_TIMEOUT: case KSI_NETWORK_SEND_TIMEOUT: case KSI_NETWORK_CONNECTION_TIMEOUT:
		case KSI_ASYNC_CONNECTION_CLOSED: case KSI_NETWORK_ERROR: case KSI_HTTP_ERROR: case KSI_OK: return false;
		default: return true;
	}
}

// Connection-wide causes (malformed / unauthenticated / contradicting PDUs, error PDUs) sit in the client's response
// queue until a run call consumes them, and each failing run call consumes at least one of them. So: a request that was
// failed in run call R has a cause iff at least as many such frames had arrived by then as there were failing run calls.
bool AsyncSim::connwide_cause(const Attempt &a) {
	size_t R = a.failed_run ? a.failed_run : run_calls.size();
	if (R == 0 || R > run_calls.size()) return false;
	uint64_t upto = run_calls[R - 1].second;
	size_t have = 0;
	for (auto &f : frames) {
		if (f.arrive_seq == 0 || f.arrive_seq > upto) continue;
		bool cw = f.bad || f.info.has_error;
		if (!cw && svc_ext && f.clean_resp) {
			for (auto &r : recs) for (auto &at : r->att) if (at.id == f.info.id && !cw) {
				if (!f.info.has_cal || f.info.cal_agg != r->agg_time || (r->has_pub && f.info.cal_pub != r->pub_time) || !f.info.cal_shape_ok) cw = true;
			}
		}
		if (cw) have++;
	}
	std::set<size_t> failing_runs;
	for (auto &r : recs) for (auto &at : r->att) if (at.failed_run && at.failed_run <= R && is_connwide_err(at.failed_err)) {
		// a status reply addressed to the request itself is not connection-wide
		bool own = false;
		if (at.failed_err >= 0x400 && at.failed_err < 0x600)
			for (auto &f : frames) if (!f.bad && f.info.has_resp && f.info.has_id && f.info.id == at.id && f.info.status != 0 && f.arrive_seq <= upto) own = true;
		if (!own) failing_runs.insert(at.failed_run);
	}
	return have >= 1 && have >= failing_runs.size();
}

// a configuration request is completed by an authentic configuration PDU that the client can have processed after accepting it
void AsyncSim::check_conf_completion(HRec &r, Attempt &a) {
	KSI_Config *cfg = nullptr;
	KSI_AsyncHandle_getConfig(r.h, &cfg);
	K.count("outcome.configuration");
	if (!cfg) { K.fail("C13", "config-handle-empty", "request", "configuration request #%d completed without a configuration", r.idx); return; }
	ConfVals cv = read_config(cfg);
	(void)a;
	// a configuration carries no request identity: any authentic configuration PDU of this connection history may complete the
	// request (also one that was already queued in the client when the request was (re-)added)
	bool any = false, same = false;
	for (auto &f : frames) if (!f.bad && f.info.has_conf && f.arrive_seq && f.arrive_seq <= K.seq) {
		any = true;
		if (conf_eq(f.info.conf, cv)) same = true;
	}
	if (!any) K.fail("C13", "response-without-valid-reply", "configuration", "configuration request #%d completed, but no authentic configuration PDU has arrived at all", r.idx);
	else if (!same) K.fail("C06", "config-without-authentic-pdu", "request", "configuration request #%d completed with values that no authentic configuration PDU carried", r.idx);
}

void AsyncSim::check_error(HRec &r, Attempt &a) {
	std::string why;
	// "an error and no signature": a handle handed back in the error state carries no response content (also not a stale one
	// from an earlier round of a re-added handle)
	if (!svc_ext) {
		KSI_Signature *sig = nullptr;
		int gs = KSI_AsyncHandle_getSignature(r.h, &sig);
		KSI_AggregationResp *resp = nullptr;
		KSI_AsyncHandle_getAggregationResp(r.h, &resp);
		if ((gs == KSI_OK && sig) || resp) K.fail("C07", "content-on-failed-handle", r.att.size() > 1 ? "re-added" : "first-round", "handle #%d came back in the error state (0x%x) but getSignature returns 0x%x%s", r.idx, a.err, gs, resp ? " and a response object is attached" : "");
		KSI_Signature_free(sig);
	} else {
		KSI_ExtendResp *resp = nullptr;
		KSI_AsyncHandle_getExtendResp(r.h, &resp);
		if (resp) K.fail("C08", "content-on-failed-handle", r.att.size() > 1 ? "re-added" : "first-round", "handle #%d came back in the error state (0x%x) with an extend response attached", r.idx, a.err);
	}
	if (a.err == KSI_OK) { K.fail("C13", "error-state-without-code", "run", "handle #%d in ERROR state with error code 0", r.idx); return; }
	if (!cause_exists(a, a.err, why)) {
		char key[64]; snprintf(key, sizeof key, "err-0x%x", a.err);
		K.fail("C13", "error-without-cause", key, "handle #%d failed with 0x%x (%s) but: %s [accepted_seq=%llu sent_seq=%llu]", r.idx, a.err, sdk::err_name(a.err), why.c_str(),
		       (unsigned long long)a.accepted_seq, (unsigned long long)a.sent_seq);
	}
}

void AsyncSim::check_outgoing(bool final) {
	(void)final;
	for (size_t ei = 0; ei < eps.size(); ei++) {
		SimEndpoint &e = eps[ei];
		std::vector<uint64_t> order; // ids in the order they hit the wire
		auto check_pdu = [&](const std::string &pdu, const char *where, int idx, bool partial_sends) {
			ReqInfo ri;
			parse_request(pdu, e.cfg.key, ri);
			bool structure = ri.framed && ri.ver != 0 && ri.has_header && ri.header_first && ri.has_mac && ri.mac_last && (ri.has_req || ri.has_conf_req);
			if (!ri.framed || ri.ver == 0 || (!structure && partial_sends)) { K.fail("C14", "outgoing-stream-not-pdu-aligned", where, "ep%zu %s%d: bytes on the wire are not a request PDU: %s", ei, where, idx, hexs(pdu.data(), pdu.size(), 24).c_str()); return false; }
			if (ri.ver != e.cfg.pdu_ver) K.fail("C06", "request-wrong-version", where, "request framed as version %d, configured %d", ri.ver, e.cfg.pdu_ver);
			if (!ri.has_header || !ri.has_mac) K.fail("C06", "request-without-header-or-mac", where, "request lacks header or MAC");
			else if (!ri.mac_ok || ri.mac_alg != e.cfg.mac_alg) K.fail("C06", "request-mac-wrong", where, "request MAC does not verify under the endpoint key / configured algorithm (alg %d)", ri.mac_alg);
			if (ri.login != e.cfg.login) K.fail("C07", "request-login-changed", where, "login id on the wire differs from the configured one");
			if (ri.has_id) {
				// ids repeat once the id generation has wrapped, and HA sub-requests are recognised by content only: the wire
				// request is fine if one of the submitted requests it can stand for has exactly its content
				bool known = false, same = false, level_same = false;
				for (auto &r : recs) {
					bool match = false;
					if (!ha) { for (auto &a : r->att) if (a.id == ri.id) match = true; }
					else match = svc_ext ? (ri.has_agg_time && ri.agg_time == r->agg_time) : (ri.has_hash && ri.hash == r->hash);
					if (!match || r->is_conf) continue;
					known = true;
					if (!svc_ext) {
						if (ri.hash == r->hash && (ri.has_level ? ri.level : 0) == r->level) same = true;
						if ((ri.has_level ? ri.level : 0) == r->level) level_same = true;
					} else if (ri.agg_time == r->agg_time && ri.has_pub_time == r->has_pub && (!r->has_pub || ri.pub_time == r->pub_time)) same = true;
				}
				if (known && !same) {
					if (!svc_ext) {
						if (!ha) K.fail("C07", "request-content-changed", where, "request 0x%llx on the wire carries another hash/level than submitted", (unsigned long long)ri.id);
						else if (!level_same) K.fail("C07", "request-content-changed", where, "HA sub-request carries another level than submitted");
					} else K.fail("C08", "request-content-changed", where, "extend request on the wire carries other times than submitted");
				}
				if (!known) K.fail("C14", "unknown-request-on-wire", where, "request id 0x%llx on the wire was never submitted", (unsigned long long)ri.id);
				order.push_back(ri.id);
			}
			return true;
		};
		if (!e.http) {
			for (auto &cp : N.conns) {
				Conn &c = *cp;
				if (c.ep != e.net_ep) continue;
				size_t off = 0; int n = 0;
				while (off < c.c2s.size()) {
					size_t fl = frame_len(c.c2s, off);
					if (fl == 0 || off + fl > c.c2s.size()) {
						// trailing partial PDU: must at least start like a request PDU
						unsigned char b0 = (unsigned char)c.c2s[off];
						unsigned want = svc_ext ? 0x3 : 0x2;
						unsigned char b1 = off + 1 < c.c2s.size() ? (unsigned char)c.c2s[off + 1] : (e.cfg.pdu_ver == 2 ? 0x20 : 0x00);
						if (b0 != (0x80 | want) || b1 != (e.cfg.pdu_ver == 2 ? 0x20 : 0x00))
							K.fail("C14", "outgoing-stream-not-pdu-aligned", "partial", "ep%zu c%d: trailing bytes do not start a request PDU: %s", ei, c.idx, hexs(c.c2s.data() + off, c.c2s.size() - off, 16).c_str());
						break;
					}
					if (!check_pdu(c.c2s.substr(off, fl), "c", c.idx, c.had_partial_send)) break;
					off += fl; n++;
				}
			}
		} else {
			for (auto &xp : C.xfers) if (xp->ep == e.net_ep && xp->sent_seq) check_pdu(xp->req_body, "x", xp->idx, false);
		}
		// submission order (plain TCP service): first transmissions appear in acceptance order
		if (!ha && !e.http) {
			std::vector<uint64_t> accepted;
			std::vector<std::pair<uint64_t, uint64_t>> acc;
			for (auto &r : recs) for (auto &a : r->att) acc.push_back({a.accepted_seq, a.id});
			std::sort(acc.begin(), acc.end());
			size_t j = 0;
			for (uint64_t id : order) {
				while (j < acc.size() && acc[j].second != id) j++;
				if (j == acc.size()) { K.fail("C14", "outgoing-order", "submission-order", "requests appear on the wire in another order than they were submitted"); break; }
				j++;
			}
		}
	}
}

void AsyncSim::quiesce() {
	if (in_quiesce) return;
	in_quiesce = true;
	faults_stopped = true;
	K.ev("QUIESCE");
	for (auto &e : eps) {
		NetEndpoint &ne = N.eps[e.net_ep];
		ne.refuse_next = 0; ne.blackhole = false; ne.dnsfail_next = 0; ne.connect_delay_ms = 0;
		ne.sndbuf_cap = 1 << 22; ne.send_cut = 0; ne.recv_cut = 0; ne.eintr_next = 0;
		e.honest_only = true;
	}
	C.write_cut = 0;
	int maxto = std::max(snd_to, std::max(rcv_to, con_to));
	auto drain_round = [&]() {
		K.advance(1000);
		K.ev("drain-round");
		for (size_t i = 0; i < eps.size(); i++) {
			if (eps[i].silent) continue;
			op_srvread((int)i);
			while (!eps[i].pending.empty()) {
				SrvReq rq = eps[i].pending.front();
				eps[i].pending.erase(eps[i].pending.begin());
				if (rq.info.has_conf_req && !rq.info.has_req) send_conf_reply(eps[i], rq, B_HONEST, 7 + K.seq);
				else send_reply(eps[i], rq, rq.info.has_id ? B_HONEST : B_ERROR_PDU, 7 + K.seq);
			}
		}
		for (auto s : streams_with_inflight()) {
			bool sil = false;
			for (auto &e : eps) if (e.silent && ((s.first >= 0 && N.conns[s.first]->ep == e.net_ep) || (s.second >= 0 && C.xfers[s.second]->ep == e.net_ep))) sil = true;
			if (sil) continue;
			if (s.first >= 0) N.deliver(*N.conns[s.first], 0); else C.deliver(*C.xfers[s.second], 0);
		}
		for (size_t k = 0; k < (2 * cache + 8) * (ha ? eps.size() + 1 : 1); k++) {
			size_t before_ret = 0; for (auto &r : recs) if (r->outstanding) before_ret++;
			uint64_t sq = K.seq;
			op_run();
			size_t after_ret = 0; for (auto &r : recs) if (r->outstanding) after_ret++;
			(void)sq;
			if (after_ret == before_ret && k > 0 && !last_run_gave_handle) break;
			if (K.failed()) return;
		}
	};
	size_t out0 = outstanding() + superseded_conf.size(); // superseded configuration requests are still in the client's send queue
	int B = (int)((out0 + maxreq - 1) / maxreq) + maxto + 4;
	if (ha) B += maxto + 2; // HA returns one handle per sub-service per run and may wait for every endpoint's own timeout
	int rounds = 0;
	while (outstanding() > 0 && rounds < B && !K.failed()) { drain_round(); rounds++; }
	K.count("probe.quiesce");
	if (K.failed()) return;
	if (outstanding() > 0) {
		if (backward_jump) { K.count("probe.liveness_exempt_backward_jump"); return; }
		std::string st;
		for (auto &r : recs) if (r->outstanding) { st += "#" + std::to_string(r->idx) + ":state" + std::to_string(peek_handle_state(r->h)) + " "; }
		K.fail("C13", "request-lost", "quiesce", "%zu accepted request(s) not returned within %d drain rounds after faults stopped: %s", outstanding(), B, st.c_str());
		return;
	}
	// requests of superseded configuration requests are still in the client's send queue (one per round at most): let them go first
	for (size_t k = 0; k < 2 * superseded_conf.size() && !K.failed(); k++) drain_round();
	// a request added during quiescence completes with a response
	bool any_silent = false;
	for (auto &e : eps) if (e.silent) any_silent = true;
	if (any_silent && !ha) return;
	for (auto &r : recs) if (r->held && r->h) { KSI_AsyncHandle_free(r->h); r->h = nullptr; r->held = false; }
	size_t nrec = recs.size();
	run::Op add; add.k = "ADD"; add.a = {1, 0};
	op_add(add);
	if (recs.size() == nrec || K.failed()) {
		if (recs.size() == nrec && !K.failed()) K.fail("C13", "fresh-request-refused", "quiesce", "a request added after everything was returned was not accepted");
		return;
	}
	HRec &fresh = *recs.back();
	rounds = 0;
	int B2 = 1 + maxto + 4 + (ha ? maxto + 2 : 0);
	while (fresh.outstanding && rounds < B2 && !K.failed()) { drain_round(); rounds++; }
	if (K.failed()) return;
	if (fresh.outstanding) {
		if (!backward_jump) K.fail("C13", "request-lost", "fresh-request", "a request added after faults stopped was not completed within %d drain rounds", B2);
	} else if (fresh.hold_state != KSI_ASYNC_STATE_RESPONSE_RECEIVED && !backward_jump) {
		bool all_silent = true;
		for (size_t ei = 0; ei < eps.size(); ei++) if (!eps[ei].silent && !(ha && ei < fresh.sub_full.size() && fresh.sub_full[ei])) all_silent = false;
		for (auto &f : frames) if (f.bad) stream_corrupted = true; // the framing of a live stream may be lost for good
		// an error PDU that a server had issued before the faults stopped and that reached the client only while the fresh request
		// was outstanding fails it legitimately (reached: arrived at the socket, or was taken from the socket by the client - an
		// error PDU bears no request id, so one that sat unread in the socket buffer when the request was added is applied to it)
		// The same holds for any other reply of before that the client cannot accept (malformed, unauthenticated, or - extending
		// service - a calendar chain that contradicts its request): the sub-service fails whatever waits at that endpoint.
		if (!fresh.att.empty()) for (auto &f : frames) {
			bool unacceptable = f.info.has_error || f.bad;
			if (!unacceptable && svc_ext && f.clean_resp) {
				if (!f.info.has_cal || !f.info.cal_shape_ok) unacceptable = true;
				for (auto &r : recs) for (auto &at : r->att) if (at.id == f.info.id && !unacceptable)
					if (f.info.cal_agg != r->agg_time || (r->has_pub && f.info.cal_pub != r->pub_time)) unacceptable = true;
			}
			if (unacceptable && (f.arrive_seq > fresh.att.back().accepted_seq || f.read_seq == 0 || f.read_seq > fresh.att.back().accepted_seq)) { stream_corrupted = true; K.count("probe.fresh_request_met_late_error_pdu"); }
		}
		// ... and for a connection attempt of before (a delayed connect) that was still pending when the fresh request was added and
		// then ran into the connect timeout: the request fails with it
		if (!fresh.att.empty()) for (auto &cp : N.conns) if (cp->connect_seq && cp->connect_seq < fresh.att.back().accepted_seq && (cp->established_seq == 0 || cp->established_seq > fresh.att.back().accepted_seq) && cp->end_kind != "refused") { stream_corrupted = true; K.count("probe.fresh_request_met_pending_connect"); }
		// ... also when a frame that claims more bytes than the server ever sent is still open: everything that follows is swallowed into it
		for (auto &e : eps) if (!e.http) for (auto &cp : N.conns) if (cp->ep == e.net_ep && !cp->client_closed) {
			auto it = e.conn_parsed.find(cp->idx);
			size_t off = it == e.conn_parsed.end() ? 0 : it->second;
			if (off < cp->s2c_arrived) stream_corrupted = true;
		}
		if (!all_silent && !stream_corrupted && snd_to != 0 && rcv_to != 0 && (con_to != 0 || eps[0].http)) K.fail("C14", "no-recovery-after-faults", "fresh-request", "a request added after faults stopped, against honest servers, ended with error 0x%x instead of a response", fresh.att.back().err);
	} else K.count("probe.fresh_request_ok");
}

run::RunResult AsyncSim::run(bool trace) {
	run::RunResult rr;
	K.trace = trace;
	setup();
	if (!K.inconclusive) {
		size_t cap = (size_t)plan.c("maxops", 2000);
		for (size_t i = 0; i < plan.ops.size() && i < cap; i++) {
			exec(plan.ops[i]);
			if (K.failed() || K.inconclusive) break;
		}
		if (!K.failed() && !K.inconclusive && plan.c("quiesce", 1)) quiesce();
		if (!K.failed() && !K.inconclusive) { note_sent(); refresh_frames(); check_outgoing(true); if (ha) ha_final_checks(); }
		// reported last, so that every other oracle has judged the run first: an accepted configuration request that a later one
		// pushed out of the service's single configuration slot is never handed back
		if (!K.failed() && !K.inconclusive && !superseded_conf.empty())
			K.fail("C13", "request-lost", "superseded-configuration-request", "configuration request #%d was accepted but never handed back: a later configuration request replaced it in the service's configuration slot", superseded_conf[0]->idx);
	}
	teardown();
	rr.hash = K.hash;
	rr.violations = K.violations;
	rr.counters = K.counters;
	rr.sim_ms = K.elapsed_ms;
	rr.inconclusive = K.inconclusive;
	rr.inconclusive_why = K.inconclusive_why;
	rr.nontrivial = inflight_fault;
	rr.abstract_states = abstract_states;
	if (trace) rr.log = K.log;
	K.trace = false;
	return rr;
}

// HA specific parts live in eng/ha.cc
} // namespace eng
