// AsyncSim: the simulated world around one KSI_AsyncService (plain or high-availability): endpoints with
// reference servers, the history model, the op interpreter and the oracles of C13 / C14 / C06 / C15.
#pragma once
#include "sim/peek.h"
#include "eng/sdk.h"
#include "run/plan.h"
#include "ref/world.h"
#include "sim/simnet.h"
#include "sim/simcurl.h"
#include <memory>
#include <set>

namespace eng {

struct Attempt {
	uint64_t id = 0;
	bool is_conf = false;
	uint64_t accepted_seq = 0; int64_t accepted_ms = 0;
	uint64_t sent_seq = 0; int64_t sent_ms = 0;     // request completely handed to the transport
	uint64_t disp_seq = 0; int64_t disp_ms = 0;     // dispatched by the SDK (TCP: = sent; HTTP: handed to libcurl)
	bool returned = false; uint64_t returned_seq = 0;
	int state = 0, err = 0; long ext = 0;
	size_t failed_run = 0; int failed_err = 0; int64_t failed_ms = 0;
	size_t resp_run = 0;                            // run call in which the SDK matched a response to it      // run call (1-based) in which the SDK put it into the error state
};

struct HRec {
	KSI_AsyncHandle *h = nullptr;
	int idx = 0;
	std::string hash;          // request hash imprint (signing)
	uint64_t level = 0;
	uint64_t agg_time = 0, pub_time = 0; bool has_pub = false; // extending
	std::vector<Attempt> att;
	// a handle that extends a signature (KSI_AsyncExtendingHandle_new): source bytes, document hash, supplied publication record
	bool sig_extend = false; std::string src_sig, src_hash; int pub_variant = 0; std::string pub_root;
	bool abandoned = false;    // outstanding when the application freed the service
	bool is_conf = false;      // a configuration request (no hash / times, no request id, no cache slot)
	bool outstanding = false;  // accepted and not yet returned
	bool held = false;         // returned to the application, not yet freed / re-added
	int hold_state = 0;
	// HA bookkeeping
	int notices = 0;
	std::vector<bool> sub_full;   // per endpoint: sub-service cache was full when the request was added
};

struct SrvReq {
	int ep = 0;
	ref::ReqInfo info;
	int conn = -1, xfer = -1;
	uint64_t recv_seq = 0;
	bool answered = false;
	std::string last_reply;
};

struct Frame {
	int ep = 0; int conn = -1, xfer = -1;
	uint64_t arrive_seq = 0;
	uint64_t read_seq = 0;     // when the client took its last byte from the socket (TCP) / was handed it (HTTP)
	ref::RespInfo info;
	std::string bytes;
	int behav = -1;            // label of the reply these bytes were generated as (-1: unknown / altered in flight)
	bool clean_resp = false;   // authentic, configured version, response with status 0
	bool authentic = false;    // MAC verifies under the endpoint key and configured algorithm, configured PDU version and service
	bool bad = false;          // malformed, unauthenticated, unknown tag, other version
};

struct SimEndpoint {
	ref::EndpointCfg cfg;
	bool http = false;
	bool cred_in_uri = false;
	int net_ep = -1;
	std::string uri, host; unsigned port = 0;
	std::vector<SrvReq> pending, answered;
	std::vector<ref::ReqInfo> request_log;     // every complete request PDU that reached the server, in order
	std::map<int, size_t> conn_parsed;          // conn -> parsed offset into s2c stream (frames)
	std::map<int, size_t> conn_req_parsed;      // conn -> parsed offset into c2s stream (outgoing check)
	std::set<int> xfer_framed;
	bool silent = false;                        // stays silent during quiesce (HA timing clause)
	bool pushed_conf = false;                   // C15: at most one configuration push per endpoint and run
	bool honest_only = false;
};

struct ConfEvent { uint64_t seq; ref::ConfVals cv; bool via_callback; int ep; };

bool sig_matches_reply(const ref::SigView &v, const ref::RespInfo &info, uint64_t level);
ref::ConfVals read_config(KSI_Config *c);
bool conf_eq(const ref::ConfVals &a, const ref::ConfVals &b);

class AsyncSim {
public:
	explicit AsyncSim(const run::Plan &p, bool ha);
	~AsyncSim();
	run::RunResult run(bool trace);

	// called from the SDK's configuration callback trampoline
	void on_conf_callback(KSI_Config *c);
private:
	const run::Plan &plan;
	bool ha;
	std::string prop;
	KSI_CTX *ctx = nullptr;
	KSI_AsyncService *svc = nullptr;
	ref::World world;
	std::vector<SimEndpoint> eps;
	std::vector<std::unique_ptr<HRec>> recs;
	std::vector<Frame> frames;
	std::map<std::string, int> reply_label;    // reply bytes -> behaviour label
	std::vector<ConfEvent> conf_events;
	std::vector<uint64_t> dnsfail_seqs;
	std::vector<uint64_t> known_times;         // aggregation times with rounds in the world (extending)
	std::vector<std::string> known_sigs;       // the reference signatures of those rounds (with calendar chain), for signature-extending handles
	std::vector<std::string> known_hashes;
	uint64_t hash_counter = 0;
	bool backward_jump = false;
	bool faults_stopped = false;
	bool in_quiesce = false;
	int conf_handles_held = 0;
	std::vector<uint64_t> abstract_states;
	std::vector<std::pair<uint64_t, uint64_t>> run_calls; // (begin seq, end seq) of every KSI_AsyncService_run
	uint64_t run_begin_containing(uint64_t seq) const;
	uint64_t prev_run_end_before(uint64_t seq) const;
	bool inflight_fault = false;
	bool stream_corrupted = false;
	bool last_run_gave_handle = false;
	size_t cache = 1, maxreq = 1; int snd_to = 10, rcv_to = 10, con_to = 10;
	bool conf_cb = false;
	bool svc_ext = false;

	void setup();
	void teardown();
	void exec(const run::Op &op);
	void op_add(const run::Op &op);
	void op_readd(const run::Op &op);
	void op_free(const run::Op &op);
	void op_run();
	void op_deliver(const run::Op &op);
	void op_srvread(int ep);
	void op_reply(const run::Op &op);
	void op_dup(const run::Op &op);
	void op_premature(const run::Op &op);
	void op_pushconf(const run::Op &op);
	void op_tamper(const run::Op &op);
	void op_fault(const run::Op &op);
	void quiesce();
	void send_reply(SimEndpoint &e, SrvReq &rq, int behav, uint64_t subseed);
	void emit(SimEndpoint &e, int conn, int xfer, const std::string &bytes);

	size_t outstanding() const;
	size_t outstanding_slots() const;           // outstanding requests that occupy a cache slot (not configuration requests)
	size_t conf_extra(const struct ::peek_client &pc) const; // 1 when the configuration slot holds a handle that is not an outstanding request of ours
	void check_conf_completion(HRec &r, Attempt &a);
	bool create_service();
	void op_recreate();
	void op_repoint();
	uint64_t accepted_adds = 0;
	std::map<uint64_t, std::pair<int, uint64_t>> id_last_accept; // id -> (service generation, accepted-request counter)
	uint64_t svc_birth_seq = 0;                 // event sequence number at which the current service object was created
	bool frame_of_current_service(const Frame &f) const;
	int generation = 0;                         // number of times the service object has been replaced
	void send_conf_reply(SimEndpoint &e, SrvReq &rq, int seal_behav, uint64_t subseed);
	std::vector<HRec *> superseded_conf;        // configuration requests replaced by a later one while outstanding
	void after_api(const char *what);
	void monitor_counts(const char *where);
	void note_sent();
	void refresh_frames();
	void on_returned(KSI_AsyncHandle *h, size_t waiting);
	void check_response(HRec &r, Attempt &a);
	void check_error(HRec &r, Attempt &a);
	bool cause_exists(const Attempt &a, int err, std::string &why);
	bool connwide_cause(const Attempt &a);
	void check_outgoing(bool final);
	void record_state();
	bool anything_in_flight() const;
	void note_fault(const char *kind);
	std::vector<std::pair<int, int>> streams_with_inflight(); // (conn, xfer) pairs
	friend struct HaOracle;
	// --- HA specific
	void ha_on_returned(KSI_AsyncHandle *h, size_t waiting);
	void ha_final_checks();
	void ha_before_add(HRec &r);
	bool ha_endpoint_clean(const HRec &r, const Attempt &a, size_t ei, std::string &why, uint64_t upto = 0);
	uint64_t ha_sent_seq(const HRec &r, size_t ei, uint64_t after, uint64_t *id_out = nullptr);
	std::vector<std::pair<uint64_t, uint64_t>> ha_sent_all(const HRec &r, size_t ei, uint64_t after);
	int64_t ha_dispatch_ms(const HRec &r, size_t ei, uint64_t after);
	bool ha_receive_timeout_possible(const HRec &r, const Attempt &a);
	ref::ConfVals ha_expected_conf();
};

} // namespace eng
