// `ha` engine: high-availability service over 1..3 real sub-services (C15) — oracles and plan generator.
#include "eng/asyncsim.h"
#include "eng/gen.h"
#include "sim/peek.h"
#include <algorithm>
#include <cstring>

using namespace sim;
using namespace ref;

namespace eng {

void AsyncSim::ha_before_add(HRec &r) {
	KSI_AsyncService *subs[8];
	size_t n = peek_ha_subservices(svc, subs, 8);
	r.sub_full.assign(eps.size(), false);
	for (size_t i = 0; i < n && i < eps.size(); i++) {
		struct peek_client pc;
		if (peek_client(subs[i], &pc)) r.sub_full[i] = pc.pending + pc.received + 1 >= pc.cache_slots;
	}
}

// when was the (sub-)request for r completely handed to endpoint ei (first time after `after`); 0 = never
uint64_t AsyncSim::ha_sent_seq(const HRec &r, size_t ei, uint64_t after, uint64_t *id_out) {
	SimEndpoint &e = eps[ei];
	auto is_mine = [&](const ReqInfo &ri) {
		if (!ri.has_req) return false;
		if (!svc_ext) return ri.has_hash && ri.hash == r.hash;
		return ri.has_agg_time && ri.agg_time == r.agg_time && ri.has_pub_time == r.has_pub && (!r.has_pub || ri.pub_time == r.pub_time);
	};
	uint64_t best = 0;
	if (!e.http) {
		for (auto &cp : N.conns) {
			Conn &c = *cp;
			if (c.ep != e.net_ep) continue;
			size_t off = 0;
			while (off < c.c2s.size()) {
				size_t fl = frame_len(c.c2s, off);
				if (fl == 0 || off + fl > c.c2s.size()) break;
				ReqInfo ri;
				if (parse_request(c.c2s.substr(off, fl), e.cfg.key, ri) && is_mine(ri)) {
					uint64_t s = c.seq_when_sent(off + fl);
					if (s > after && (best == 0 || s < best)) { best = s; if (id_out) *id_out = ri.id; }
				}
				off += fl;
			}
		}
	} else {
		for (auto &xp : C.xfers) {
			if (xp->ep != e.net_ep || !xp->sent_seq) continue;
			ReqInfo ri;
			if (parse_request(xp->req_body, e.cfg.key, ri) && is_mine(ri) && xp->sent_seq > after && (best == 0 || xp->sent_seq < best)) { best = xp->sent_seq; if (id_out) *id_out = ri.id; }
		}
	}
	return best;
}

// every wire request at endpoint ei that can stand for this request (same content) and was sent after `after`: (sub-request id, seq)
std::vector<std::pair<uint64_t, uint64_t>> AsyncSim::ha_sent_all(const HRec &r, size_t ei, uint64_t after) {
	std::vector<std::pair<uint64_t, uint64_t>> out;
	SimEndpoint &e = eps[ei];
	auto is_mine = [&](const ReqInfo &ri) {
		if (!ri.has_req) return false;
		if (!svc_ext) return ri.has_hash && ri.hash == r.hash;
		return ri.has_agg_time && ri.agg_time == r.agg_time && ri.has_pub_time == r.has_pub && (!r.has_pub || ri.pub_time == r.pub_time);
	};
	if (!e.http) {
		for (auto &cp : N.conns) {
			Conn &c = *cp;
			if (c.ep != e.net_ep) continue;
			size_t off = 0;
			while (off < c.c2s.size()) {
				size_t fl = frame_len(c.c2s, off);
				if (fl == 0 || off + fl > c.c2s.size()) break;
				ReqInfo ri;
				if (parse_request(c.c2s.substr(off, fl), e.cfg.key, ri) && is_mine(ri)) { uint64_t s = c.seq_when_sent(off + fl); if (s > after) out.push_back({ri.id, s}); }
				off += fl;
			}
		}
	} else {
		for (auto &xp : C.xfers) {
			if (xp->ep != e.net_ep || !xp->sent_seq) continue;
			ReqInfo ri;
			if (parse_request(xp->req_body, e.cfg.key, ri) && is_mine(ri) && xp->sent_seq > after) out.push_back({ri.id, xp->sent_seq});
		}
	}
	return out;
}

// earliest moment at which a sub-request standing for this request was dispatched to endpoint ei (TCP: written completely; HTTP:
// handed to libcurl) after `after`; -1 = never
int64_t AsyncSim::ha_dispatch_ms(const HRec &r, size_t ei, uint64_t after) {
	SimEndpoint &e = eps[ei];
	int64_t best = -1;
	if (!e.http) { for (auto &ss : ha_sent_all(r, ei, after)) { int64_t t = K.ms_at(ss.second); if (best < 0 || t < best) best = t; } return best; }
	for (auto &xp : C.xfers) {
		if (xp->ep != e.net_ep || xp->added_seq <= after) continue;
		ReqInfo ri;
		if (!parse_request(xp->body_at_add, e.cfg.key, ri) || !ri.has_req) continue;
		bool mine = !svc_ext ? (ri.has_hash && ri.hash == r.hash) : (ri.has_agg_time && ri.agg_time == r.agg_time && ri.has_pub_time == r.has_pub && (!r.has_pub || ri.pub_time == r.pub_time));
		if (mine && (best < 0 || xp->added_ms < best)) best = xp->added_ms;
	}
	return best;
}

// a receive timeout reported for a request: at some endpoint a sub-request must have been waiting for at least the configured time
bool AsyncSim::ha_receive_timeout_possible(const HRec &r, const Attempt &a) {
	if (rcv_to == 0 || backward_jump) return true;
	for (size_t ei = 0; ei < eps.size(); ei++) {
		// sub-requests of every round of the request may still be around
		int64_t t = ha_dispatch_ms(r, ei, r.att.empty() ? 0 : r.att.front().accepted_seq);
		if (t >= 0 && K.now_ms - t >= (int64_t)rcv_to * 1000) return true;
	}
	(void)a;
	return false;
}

static bool frame_answers(const Frame &f, const HRec &r, bool ext) {
	if (!f.clean_resp) return false;
	if (!ext) return f.info.has_chains && f.info.first_input == r.hash;
	return f.info.has_cal && f.info.cal_agg == r.agg_time && (!r.has_pub || f.info.cal_pub == r.pub_time) && f.info.cal_shape_ok;
}

// no failure cause of any kind on endpoint ei while this attempt was outstanding
bool AsyncSim::ha_endpoint_clean(const HRec &r, const Attempt &a, size_t ei, std::string &why, uint64_t upto) {
	(void)r;
	SimEndpoint &e = eps[ei];
	uint64_t lo = prev_run_end_before(a.accepted_seq), hi = upto ? upto : K.seq;
	if (snd_to == 0 || rcv_to == 0 || (con_to == 0 && !e.http)) { why = "zero timeout"; return false; }
	int mn = std::min(snd_to, rcv_to);
	if (!e.http) mn = std::min(mn, con_to);
	if (K.now_ms - a.accepted_ms >= (int64_t)mn * 1000) { why = "a timeout may have elapsed"; return false; }
	if (backward_jump) { why = "clock jumped back"; return false; }
	for (auto &f : frames) {
		if (f.ep != (int)ei || f.arrive_seq == 0 || f.arrive_seq > hi) continue;
		// bad frames / error PDUs stay queued in the client until consumed, whenever they arrived
		if (f.bad || f.info.has_error) { why = "bad frame or error PDU"; return false; }
		if (f.arrive_seq < lo) continue;
		if (f.info.has_resp && f.info.status != 0) { why = "error status"; return false; }
		if (f.clean_resp && svc_ext && !frame_answers(f, r, true) && f.info.has_cal && !f.info.cal_shape_ok) { why = "contradicting reply"; return false; }
	}
	for (auto &cp : N.conns) if (cp->ep == e.net_ep && cp->ended_seq >= lo && cp->ended_seq <= hi && cp->end_kind != "") {
		// judged at an earlier moment (upto): an orderly or abortive end that had arrived but that no call of the client had reported yet,
		// behind data still to be read, has not failed anything so far
		if (upto && (cp->end_kind == "fin" || cp->end_kind == "rst") && (!cp->noticed_seq || cp->noticed_seq > hi)) continue;
		why = "connection ended (" + cp->end_kind + ")"; return false;
	}
	for (auto &xp : C.xfers) if (xp->ep == e.net_ep && xp->done_seq >= lo && xp->done_seq <= hi && (xp->result != CURLE_OK || xp->http_code >= 400)) { why = "transfer failed"; return false; }
	for (auto &d : N.dnsfail_log) if (d.second == e.net_ep && d.first >= lo && d.first <= hi) { why = "dns"; return false; }
	// a connection attempt that has not completed (delayed or black-holed SYN) is a pending failure cause
	for (auto &cp : N.conns) if (cp->ep == e.net_ep && cp->st == Conn::SYN_SENT && !cp->client_closed) { why = "connect pending"; return false; }
	for (auto &xp : C.xfers) if (xp->ep == e.net_ep && (xp->st == Xfer::CONNECTING || xp->st == Xfer::QUEUED)) { why = "connect pending"; return false; }
	// extender replies that contradict some request make the sub-service fail everything that waits
	if (svc_ext) for (auto &f : frames) if (f.ep == (int)ei && f.clean_resp && f.arrive_seq <= hi) {
		// the sub-service checks a reply against the request that bears its id (times, shape); a reply whose id no request of this
		// endpoint bears is dropped silently
		bool fits_any = false;
		for (auto &rr : recs) if (frame_answers(f, *rr, true)) fits_any = true;
		if (!fits_any) { why = "reply fits no request"; return false; }
		for (auto &rq : e.request_log) if (rq.has_id && f.info.has_id && rq.id == f.info.id) {
			bool fits = f.info.has_cal && f.info.cal_shape_ok && rq.has_agg_time && f.info.cal_agg == rq.agg_time && (!rq.has_pub_time || f.info.cal_pub == rq.pub_time);
			if (!fits) { why = "reply contradicts the request bearing its id"; return false; }
		}
	}
	return true;
}

void AsyncSim::ha_on_returned(KSI_AsyncHandle *h, size_t waiting) {
	(void)waiting;
	int state = 0, err = 0; long ext = 0;
	KSI_AsyncHandle_getState(h, &state);
	KSI_AsyncHandle_getError(h, &err);
	KSI_AsyncHandle_getExtError(h, &ext);
	if (state == KSI_ASYNC_STATE_ERROR_NOTICE) {
		const void *octx = nullptr;
		KSI_AsyncHandle_getRequestCtx(h, &octx);
		HRec *rec = nullptr;
		for (auto &r : recs) if (r->h && (const void *)r->h == octx) rec = r.get();
		K.ev("NOTICE for #%d err=0x%x", rec ? rec->idx : -1, err);
		K.count("outcome.error_notice");
		if (err == KSI_OK) K.fail("C15", "notice-without-error", "run", "ERROR_NOTICE handle with error code 0");
		if (!octx) K.fail("C15", "notice-without-request", "run", "ERROR_NOTICE handle does not reference the original request");
		else if (!rec) {
			bool any_freed = false;
			for (auto &r : recs) if (!r->h) any_freed = true;
			if (!any_freed) K.fail("C15", "notice-for-unknown-request", "run", "ERROR_NOTICE references a handle that was never submitted");
		} else {
			rec->notices++;
			// a notice reports a real sub-request failure: some endpoint must have a failure cause
			if (!rec->att.empty()) {
				bool any_cause = false;
				std::string why;
				for (size_t ei = 0; ei < eps.size(); ei++) if (!ha_endpoint_clean(*rec, rec->att.back(), ei, why)) any_cause = true;
				// the window of an earlier attempt may hold the cause as well
				if (!any_cause && rec->att.size() > 1) any_cause = true;
				if (!any_cause) K.fail("C15", "notice-without-cause", "run", "ERROR_NOTICE (0x%x) for request #%d although no endpoint had any failure", err, rec->idx);
				else if (err == KSI_NETWORK_RECIEVE_TIMEOUT && !ha_receive_timeout_possible(*rec, rec->att.back()))
					K.fail("C15", "notice-without-cause", "receive-timeout-too-early", "receive-timeout notice for request #%d although no endpoint has had its sub-request for %d s", rec->idx, rcv_to);
			}
		}
		KSI_AsyncHandle_free(h);
		return;
	}
	if (state == KSI_ASYNC_STATE_PUSH_CONFIG_RECEIVED) {
		KSI_Config *cfg = nullptr;
		KSI_AsyncHandle_getConfig(h, &cfg);
		K.count("probe.conf_handle");
		if (!cfg) K.fail("C15", "config-handle-empty", "run", "PUSH_CONFIG_RECEIVED handle without a configuration");
		else {
			ConfEvent e; e.seq = K.ev("conf-handle"); e.cv = read_config(cfg); e.via_callback = true; e.ep = -1;
			conf_events.push_back(e);
		}
		if (conf_cb) K.fail("C15", "config-handle-despite-callback", "run", "configuration handle returned although a push-config callback is set");
		KSI_AsyncHandle_free(h);
		return;
	}
	HRec *rec = nullptr;
	for (auto &r : recs) if (r->h == h) rec = r.get();
	if (!rec) { K.fail("C15", "phantom-handle", "run", "HA run returned a handle that was never submitted (state %d)", state); return; }
	if (!rec->outstanding) { K.fail("C15", "returned-twice", "run", "request #%d completed a second time (state %d)", rec->idx, state); return; }
	Attempt &a = rec->att.back();
	a.returned = true; a.returned_seq = K.ev("RETURNED #%d state=%d err=0x%x ext=%ld", rec->idx, state, err, ext);
	a.state = state; a.err = err; a.ext = ext;
	rec->outstanding = false; rec->held = true; rec->hold_state = state;
	K.count(state == KSI_ASYNC_STATE_RESPONSE_RECEIVED ? "outcome.response" : "outcome.error");
	check_outgoing(false);
	if (K.failed()) return;
	if (state == KSI_ASYNC_STATE_RESPONSE_RECEIVED) {
		std::vector<const Frame *> good;
		for (size_t ei = 0; ei < eps.size(); ei++) {
			// the sub-service's notion of a valid reply: authentic, status 0, bearing the id of a sub-request that stands for this
			// request (C13); a sub-request of an earlier round of a re-added request may still have been in the send queue
			for (auto &ss : ha_sent_all(*rec, ei, a.accepted_seq))
				for (auto &f : frames) if (f.ep == (int)ei && f.clean_resp && f.info.id == ss.first && (!svc_ext || frame_answers(f, *rec, true)) && f.arrive_seq > ss.second && f.arrive_seq <= K.seq) good.push_back(&f);
		}
		if (good.empty()) {
			bool prem = false;
			for (size_t ei = 0; ei < eps.size(); ei++) for (auto &ss : ha_sent_all(*rec, ei, a.accepted_seq)) for (auto &f : frames) if (f.ep == (int)ei && f.clean_resp && f.info.id == ss.first) prem = true;
			K.fail("C15", "response-without-valid-reply", prem ? "reply-arrived-before-the-request-was-sent-but-was-matched-after" : "no-endpoint-replied",
			       "request #%d completed with a response, but no endpoint produced an authentic status-0 reply for it after receiving it", rec->idx);
			return;
		}
		if (!svc_ext) {
			KSI_Signature *sig = nullptr;
			int res = KSI_AsyncHandle_getSignature(h, &sig);
			if (res == KSI_OK && sig) {
				std::string bytes = sdk::serialize(sig);
				SigView v;
				bool parsed = parse_signature(bytes, v);
				SigFacts f = parsed ? evaluate(v) : SigFacts();
				if (!(parsed && f.consistent && f.input_hash == rec->hash && f.first_lc >= rec->level))
					K.fail("C07", "signature-accepted-but-invalid", f.why.empty() ? "hash-or-level" : f.why, "request #%d: HA signature is not valid for the requested hash/level (%s)", rec->idx, f.why.c_str());
				bool same = false;
				for (auto *g : good) if (sig_matches_reply(v, g->info, rec->level)) same = true;
				if (parsed && !same) K.fail("C15", "response-content-mismatch", "signature", "request #%d: the signature is not the content of any endpoint's valid reply", rec->idx);
				KSI_Signature_free(sig);
			} else {
				bool all_honest = true;
				for (auto *g : good) if (!(g->behav == B_HONEST || g->behav == B_WITH_CONF)) all_honest = false;
				if (all_honest) K.fail("C15", "honest-reply-rejected", sdk::err_name(res), "request #%d: getSignature failed (0x%x) although every eligible reply was honest", rec->idx, res);
			}
		}
	} else if (state == KSI_ASYNC_STATE_ERROR) {
		if (err == KSI_OK) K.fail("C15", "error-state-without-code", "run", "request #%d in ERROR state with error code 0", rec->idx);
		if (err == KSI_NETWORK_RECIEVE_TIMEOUT && !ha_receive_timeout_possible(*rec, a))
			K.fail("C15", "error-although-an-endpoint-did-not-fail", "receive-timeout-too-early", "request #%d ended with a receive timeout although no endpoint has had its sub-request for %d s", rec->idx, rcv_to);
		for (size_t ei = 0; ei < eps.size(); ei++) {
			if (ei < rec->sub_full.size() && rec->sub_full[ei]) continue;
			std::string why;
			// a valid reply that the client had already taken from the socket while nothing had gone wrong at that endpoint yet
			// completes the request, whatever happens to the connection afterwards
			if (!eps[ei].http) for (auto &ss : ha_sent_all(*rec, ei, a.accepted_seq)) for (auto &f : frames) {
				if (f.ep != (int)ei || !f.clean_resp || f.info.id != ss.first || f.arrive_seq <= ss.second || !f.read_seq || f.read_seq > K.seq) continue;
				if (svc_ext && !frame_answers(f, *rec, true)) continue;
				std::string w2;
				if (ha_endpoint_clean(*rec, a, ei, w2, f.read_seq)) {
					K.fail("C15", "error-although-an-endpoint-did-not-fail", "valid-reply-received-before-the-failure", "request #%d ended with error 0x%x although endpoint %zu's valid reply had been read before anything failed there", rec->idx, err, ei);
					return;
				}
			}
			if (ha_endpoint_clean(*rec, a, ei, why)) {
				bool replied = false;
				for (auto &f : frames) if (f.ep == (int)ei && frame_answers(f, *rec, svc_ext)) replied = true;
				K.fail("C15", "error-although-an-endpoint-did-not-fail", replied ? "valid-reply-ignored" : "endpoint-still-pending",
				       "request #%d ended with error 0x%x although endpoint %zu had no failure of any kind%s", rec->idx, err, ei, replied ? " and produced a valid reply" : "");
				break;
			}
		}
	} else K.fail("C15", "non-final-state", "run", "request #%d returned in state %d", rec->idx, state);
}

ConfVals AsyncSim::ha_expected_conf() {
	ConfVals x;
	for (auto &f : frames) {
		if (f.bad || !f.info.has_conf || f.arrive_seq == 0 || !frame_of_current_service(f)) continue;
		const RespInfo &i = f.info;
		bool auth = i.authentic(eps[f.ep].cfg.mac_alg) && i.ver == eps[f.ep].cfg.pdu_ver;
		if (!auth) continue;
		const ConfVals &c = i.conf;
		if (c.max_level >= 1 && c.max_level <= 20) x.max_level = std::max(x.max_level, c.max_level);
		if (c.aggr_period >= 100 && c.aggr_period <= 20000) x.aggr_period = x.aggr_period ? std::min(x.aggr_period, c.aggr_period) : c.aggr_period;
		if (c.max_requests >= 1 && c.max_requests <= 16000) x.max_requests = std::max(x.max_requests, c.max_requests);
		if (c.cal_first >= 1136073600) x.cal_first = x.cal_first ? std::min(x.cal_first, c.cal_first) : c.cal_first;
		if (c.cal_last >= 1136073600) x.cal_last = std::max(x.cal_last, c.cal_last);
	}
	return x;
}

void AsyncSim::ha_final_checks() {
	// exactly once / no loss is covered by quiesce(); notices: at most one per forwarded sub-request
	for (auto &r : recs) {
		size_t budget = 0;
		for (size_t k = 0; k < r->att.size(); k++) budget += eps.size();
		if ((size_t)r->notices > budget) K.fail("C15", "too-many-notices", "final", "request #%d produced %d error notices for %zu sub-requests", r->idx, r->notices, budget);
	}
	// fan-out: an endpoint without any failure during the life of a request must have been sent that request
	if (in_quiesce && !backward_jump) {
		for (auto &r : recs) {
			if (r->att.empty()) continue;
			const Attempt &a = r->att.front();
			for (size_t ei = 0; ei < eps.size(); ei++) {
				if (ei < r->sub_full.size() && r->sub_full[ei]) continue;
				if (r->att.size() > 1) continue;
				if (ha_sent_seq(*r, ei, 0)) continue;
				// an endpoint whose send queue (round limit) had not reached the request when another endpoint's reply completed it
				// rightly drops it; it is a violation only if the endpoint sent a later submission while this one was outstanding
				bool skipped = false;
				for (auto &o : recs) {
					if (o.get() == r.get() || o->att.empty() || o->att.front().accepted_seq <= a.accepted_seq) continue;
					uint64_t s2 = ha_sent_seq(*o, ei, 0);
					if (s2 && a.returned && s2 < a.returned_seq) skipped = true;
				}
				if (!skipped) { K.count("probe.ha_not_forwarded_but_not_skipped"); continue; }
				std::string why;
				Attempt w = a; // window until now
				if (ha_endpoint_clean(*r, w, ei, why) && a.returned && a.state == KSI_ASYNC_STATE_RESPONSE_RECEIVED)
					K.fail("C15", "request-not-forwarded", "fan-out", "request #%d was never sent to endpoint %zu although that endpoint accepted it and had no failure", r->idx, ei);
			}
		}
	}
	// consolidation
	bool all_read = true;
	int pushes = 0;
	for (auto &f : frames) if (!f.bad && f.info.has_conf && frame_of_current_service(f)) {
		pushes++;
		if (f.conn >= 0 && f.read_seq == 0) all_read = false;
		if (f.xfer >= 0) {
			// the body of a transfer is only looked at while the request that opened it is still waiting for its response
			Xfer &x = *C.xfers[f.xfer];
			if (!x.reported || rcv_to == 0 || x.done_seq == 0 || x.result != CURLE_OK || x.http_code >= 400 || x.arrived != x.resp_body.size()) all_read = false; // a failed or cut transfer delivers no body
			else if (backward_jump || K.now_ms - x.added_ms >= (int64_t)rcv_to * 1000) all_read = false;
			else {
				// ... and that request fails together with everything else that waits at this endpoint as soon as the sub-service meets a
				// PDU it cannot accept, or a failed transfer: any such cause before this transfer completed may have failed it already
				for (auto &g : frames) if (g.ep == f.ep && &g != &f && g.arrive_seq && g.arrive_seq < x.done_seq) {
					bool plain_conf = !g.bad && g.info.has_conf && !g.info.has_resp && !g.info.has_error;
					bool fits = g.clean_resp && !g.bad;   // (bad: also a PDU the client cannot even parse, e.g. an imprint of the wrong length)
					if (fits && svc_ext) {
						fits = false;
						for (auto &rq : eps[(size_t)g.ep].request_log) if (rq.has_id && g.info.has_id && rq.id == g.info.id)
							fits = g.info.has_cal && g.info.cal_shape_ok && rq.has_agg_time && g.info.cal_agg == rq.agg_time && (!rq.has_pub_time || g.info.cal_pub == rq.pub_time);
					}
					if (!plain_conf && !fits) all_read = false;
				}
				for (auto &xp : C.xfers) if (xp->ep == x.ep && xp->done_seq && xp->done_seq < x.done_seq && (xp->result != CURLE_OK || xp->http_code >= 400)) all_read = false;
			}
		}
	}
	if (!pushes) return;
	K.count("probe.ha_conf_pushes_seen", (uint64_t)pushes);
	// a configuration that travelled in an HTTP body whose transfer's own request had already failed is dropped by design
	for (auto &f : frames) if (!f.bad && f.info.has_conf && f.xfer >= 0) all_read = all_read && true;
	if (!in_quiesce || !all_read) { K.count("probe.ha_conf_not_all_processed"); return; }
	ConfVals want = ha_expected_conf();
	if (conf_events.empty()) return;
	const ConfEvent *last = nullptr;
	for (auto &e : conf_events) if (e.via_callback) last = &e;
	if (!last) {
		if (want.any()) K.count("probe.ha_conf_expected_but_none_delivered");
		return;
	}
	K.count("probe.ha_conf_compared");
	const ConfVals &got = last->cv;
	auto chk = [&](const char *field, uint64_t g, uint64_t w) {
		if (g != w) K.fail("C15", "config-consolidation", field, "consolidated %s is %llu, the reference fold over the pushed configurations gives %llu", field, (unsigned long long)g, (unsigned long long)w);
	};
	if (!svc_ext) { chk("max-level", got.max_level, want.max_level); chk("aggregation-period", got.aggr_period, want.aggr_period); chk("max-requests", got.max_requests, want.max_requests); }
	else { chk("max-requests", got.max_requests, want.max_requests); chk("calendar-first-time", got.cal_first, want.cal_first); chk("calendar-last-time", got.cal_last, want.cal_last); }
}

struct HaEngine : run::Engine {
	const char *name() const override { return "ha"; }
	run::Plan generate(uint64_t seed, const std::string &property, int tier) override {
		Rng g(mix(seed, 0x4a4a));
		run::Plan p;
		p.engine = name(); p.property = property; p.seed = seed;
		gen_async_cfg(g, p, true);
		p.cfg["pdu_ver"] = 2;
		if (g.chance(1, 3)) { p.cfg["faults"] = 0; }
		int neps = (int)p.c("eps", 2);
		int nops = tier ? (int)g.range(40, 300) : (int)g.range(15, 60);
		// a third of the plans concentrate on configuration pushes
		if (g.chance(1, 3)) {
			p.cfg["faults"] = 0; p.cfg["adv"] = 0; p.cfg["cache"] = 8; p.cfg["snd_to"] = 10; p.cfg["rcv_to"] = 10; p.cfg["con_to"] = 10;
			p.ops.push_back({"ADD", {0, 0}});
			p.ops.push_back({"RUN", {}});
			p.ops.push_back({"RUN", {}});
			for (int e = 0; e < neps; e++) p.ops.push_back({"SRVREAD", {e}});
			std::vector<int> order;
			for (int e = 0; e < neps; e++) order.push_back(e);
			for (int i = neps - 1; i > 0; i--) std::swap(order[(size_t)i], order[g.below((uint64_t)i + 1)]);
			for (int e : order) {
				p.ops.push_back({"PUSHCONF", {e, (int64_t)g.below(6), (int64_t)g.below(6), (int64_t)g.below(6), 0, (int64_t)g.below(1 << 30)}});
				if (g.chance(1, 2)) { p.ops.push_back({"DELIVER", {(int64_t)g.below(8), 0}}); p.ops.push_back({"RUN", {}}); }
			}
			for (int i = 0; i < neps * 2; i++) p.ops.push_back({"DELIVER", {(int64_t)g.below(8), 0}});
			for (int i = 0; i < neps + 2; i++) p.ops.push_back({"RUN", {}});
			// a third of these point the live service at its (TCP) endpoints again and let them push other configurations
			if (g.chance(1, 3)) {
				p.cfg["transport"] = 0; p.cfg["repoint"] = 1;
				for (int e = 0; e < neps; e++) p.ops.push_back({"REPLY", {0, 0, (int64_t)g.below(1 << 30)}});
				for (int i = 0; i < neps * 2; i++) p.ops.push_back({"DELIVER", {(int64_t)g.below(8), 0}});
				for (int i = 0; i < neps + 3; i++) p.ops.push_back({"RUN", {}});
				p.ops.push_back({"REPOINT", {}});
				p.ops.push_back({"ADD", {0, 0}});
				p.ops.push_back({"RUN", {}});
				p.ops.push_back({"RUN", {}});
				for (int e = 0; e < neps; e++) p.ops.push_back({"SRVREAD", {e}});
				for (int e = 0; e < neps; e++) p.ops.push_back({"REPLY", {0, 0, (int64_t)g.below(1 << 30)}});
				for (int e = 0; e < neps; e++) p.ops.push_back({"PUSHCONF", {e, (int64_t)g.below(6), (int64_t)g.below(6), (int64_t)g.below(6), 0, (int64_t)g.below(1 << 30)}});
				for (int i = 0; i < neps * 2; i++) p.ops.push_back({"DELIVER", {(int64_t)g.below(8), 0}});
				for (int i = 0; i < neps + 2; i++) p.ops.push_back({"RUN", {}});
			}
			gen_async_ops(g, p, nops / 3, true, neps);
			return p;
		}
		if (g.chance(1, 5)) p.ops.push_back({"SILENT", {(int64_t)g.below((uint64_t)neps)}});
		gen_async_ops(g, p, nops, true, neps);
		p.cfg["cred_in_uri"] = g.chance(1, 5) ? 1 : 0;
		return p;
	}
	run::RunResult execute(const run::Plan &p, bool trace) override {
		AsyncSim s(p, true);
		return s.run(trace);
	}
	std::map<std::string, int64_t> neutral_cfg() const override {
		return {{"svc", 0}, {"transport", 0}, {"cache", 8}, {"maxreq", 1000}, {"snd_to", 10}, {"rcv_to", 10}, {"con_to", 10}, {"mac_alg", 1},
		        {"keylen", 8}, {"loginlen", 6}, {"conf_cb", 0}, {"epoch", 0}, {"epoch_ms", 0}, {"loglevel", 0}};
	}
	std::string state_measure() const override { return "(multiset of HA request handle states, per-endpoint connection state and pending server requests, cache occupancy) after every op"; }
	std::string nontrivial_rule() const override { return "a run is non-trivial when at least one injected fault or adversarial server action fired while at least one accepted request was outstanding; distinct = distinct event-log hash"; }
};

static HaEngine g_ha;
struct RegH { RegH() { run::register_engine(&g_ha); } } g_regh;

} // namespace eng
