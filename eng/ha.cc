// `ha` engine: high-availability service over 1..3 real sub-services (C15).
#include "eng/asyncsim.h"
#include "eng/gen.h"

using namespace sim;

namespace eng {

void AsyncSim::ha_on_returned(KSI_AsyncHandle *h, size_t waiting) { (void)h; (void)waiting; }
void AsyncSim::ha_final_checks() {}

} // namespace eng
