// BlockingWorld: reference servers behind the *blocking* clients (net_tcp.c / net_http_curl.c): while the SDK sits in a
// blocking connect/send/recv or curl_easy_perform, the simulator runs the per-call environment script (server
// behaviour, reply delay, chunking, fault at byte k).
#pragma once
#include "eng/sdk.h"
#include "ref/world.h"
#include "sim/simnet.h"
#include "sim/simcurl.h"
#include <string>
#include <vector>

namespace eng {

struct CallEnv {
	int behav = ref::B_HONEST;
	uint64_t subseed = 1;
	int reply_delay_ms = 0;
	size_t chunk = 0;           // bytes per delivery step (0 = everything at once)
	int fault = 0;              // 0 none, 1 close after fault_at reply bytes, 2 reset after fault_at reply bytes, 3 no reply at all,
	                            // 4 the peer accepts the connection but never reads (TCP; the send buffer holds 40 bytes)
	size_t fault_at = 0;
	long http_code = 200;
	int tamper_bit = -1;        // >= 0: flip this bit of the reply (C06 sweep)
	std::string extra_after;    // bytes the server sends right after the reply (blocking reader must not consume them)
	bool armed = false;
};

struct ServedRequest {
	bool is_ext = false, http = false;
	ref::ReqInfo info;
	int conn = -1, xfer = -1;
	std::string reply;          // bytes sent as the reply ("" = none)
	ref::ReplyMeta meta;
	ref::RespInfo reply_info;   // classification of the bytes as sent (after tamper)
	bool reply_eligible = false; // authentic, configured version, response with status 0 and the request's id
	uint64_t seq = 0;
};

class BlockingWorld {
public:
	ref::World world;
	ref::EndpointCfg aggr, ext;
	bool aggr_http = false, ext_http = false;
	bool cred_in_uri = false;               // TCP endpoints: login and key travel in the URI ("ksi+tcp://login:ke:y@host:port", the key contains a colon)
	int aggr_ep = -1, ext_ep = -1, pub_ep = -1;
	std::string aggr_uri, ext_uri, pub_url;
	std::string pubfile_bytes;              // served at pub_url (C04)
	long pub_http_code = 200;
	int pub_fetches = 0;
	bool fault_fired = false;               // a transport fault of the armed script actually hit the call in progress
	bool fault_ambiguous = false;           // a reset arrived right after the last byte of the reply: the client may or may not have the reply (both outcomes are legitimate)
	CallEnv env;                            // script for the call in progress
	std::vector<ServedRequest> served;
	void setup(int ver, int alg, size_t keylen, size_t loginlen, bool aggr_http, bool ext_http);
	void install_hooks();
	void attach(KSI_CTX *ctx);              // KSI_CTX_setAggregator / setExtender / publications URL
	void arm(const CallEnv &e) {
		env = e; env.armed = true; progress_ = 0; replied_ = false; fault_fired = false; fault_ambiguous = false;
		if (e.fault == 4) for (int ep : {aggr_ep, ext_ep}) if (ep >= 0) sim::N.eps[(size_t)ep].sndbuf_cap = 40;
	}
	void disarm() { for (int ep : {aggr_ep, ext_ep}) if (ep >= 0 && (size_t)ep < sim::N.eps.size()) sim::N.eps[(size_t)ep].sndbuf_cap = (size_t)1 << 22; env = CallEnv(); }
	// a long-lived context: n sign and n extend requests that the servers answer with an error status (request ids above 255
	// are no longer the context's shared small-integer objects)
	void warm_up(KSI_CTX *ctx, int n);
private:
	size_t progress_ = 0, reply_len_ = 0;
	bool replied_ = false;
	std::string make_reply(ServedRequest &sr);
	bool on_block_tcp(sim::Conn &c, sim::BlockWhat w);
	bool on_block_http(sim::Xfer &x);
};

} // namespace eng
