// `history` engine: operation histories on one shared context (C11) and tree-builder / block-signer histories (C16).
#include "eng/bworld.h"
#include "run/plan.h"
#include "sim/kernel.h"
#include "sim/simalloc.h"
#include "sim/peek.h"
#include <ksi/tree_builder.h>
#include <algorithm>
#include <memory>
#include <optional>

using namespace sim;
using namespace ref;

namespace eng {
namespace {

static const int64_t EPOCH_MS = 1600000000000LL;

// ----------------------------------------------------------------------------------------------------------------------
// C16: reference forest

struct RNode { std::string imp; int level = 0; bool md = false; };   // imp: imprint, or the metadata payload bytes of a metadata leaf

static RNode rjoin(const RNode &l, const RNode &r, int alg) {
	RNode n;
	n.level = std::max(l.level, r.level) + 1;
	std::string d = l.imp + r.imp;
	d.push_back((char)n.level);
	n.imp = imprint(alg, d);
	return n;
}

struct RefForest {
	int alg = 1;
	std::vector<std::optional<RNode>> stack;
	bool insert(RNode n) {          // false: level leaves 0..255
		size_t at = 0;
		for (;;) {
			if (stack.size() <= at) stack.resize(at + 1);
			if (!stack[at]) { stack[at] = n; return true; }
			if (std::max(stack[at]->level, n.level) + 1 > 255) return false;
			n = rjoin(*stack[at], n, alg);
			stack[at].reset();
			at++;
		}
	}
	// height the root would have if a node of this level were added (0 = current)
	int highest(int level) const {
		int lv = level;
		for (auto &s : stack) if (s) lv = std::max(s->level, lv) + 1;
		return lv;
	}
	bool root(RNode &out) const {
		std::optional<RNode> r;
		for (auto &s : stack) { if (!s) continue; if (!r) r = *s; else { if (std::max(s->level, r->level) + 1 > 255) return false; r = rjoin(*s, *r, alg); } }
		if (!r) return false;
		out = *r;
		return true;
	}
};

static bool chain_of(KSI_CTX *ctx, KSI_AggregationHashChain *ch, AggChain &out) {
	(void)ctx;
	KSI_LIST(KSI_HashChainLink) *links = nullptr;
	KSI_DataHash *in = nullptr; KSI_Integer *alg = nullptr;
	if (KSI_AggregationHashChain_getChain(ch, &links) != KSI_OK || KSI_AggregationHashChain_getInputHash(ch, &in) != KSI_OK || KSI_AggregationHashChain_getAggrHashId(ch, &alg) != KSI_OK) return false;
	out = AggChain();
	out.input = sdk::imprint_of(in);
	out.alg = alg ? (int)KSI_Integer_getUInt64(alg) : 1;
	for (size_t i = 0; i < KSI_HashChainLinkList_length(links); i++) {
		KSI_HashChainLink *l = nullptr;
		KSI_HashChainLinkList_elementAt(links, i, &l);
		Link k; int isLeft = 0; KSI_Integer *lc = nullptr; KSI_DataHash *imp = nullptr;
		KSI_HashChainLink_getIsLeft(l, &isLeft);
		KSI_HashChainLink_getLevelCorrection(l, &lc);
		KSI_HashChainLink_getImprint(l, &imp);
		k.left = isLeft; k.lc = lc ? KSI_Integer_getUInt64(lc) : 0;
		if (imp) { k.kind = 0; k.sib = sdk::imprint_of(imp); }
		else {
			static unsigned char buf[0x10000];
			size_t n = peek_link_metadata(l, buf, sizeof buf);
			if (!n) return false; // legacy-id siblings are not produced by the histories generated here
			k.kind = 2; k.sib.assign((char *)buf, n);
		}
		out.links.push_back(k);
	}
	return true;
}

static KSI_MetaData *make_metadata(KSI_CTX *ctx, const std::string &client, const std::string &machine, int64_t seq, int64_t req_time) {
	KSI_MetaData *md = nullptr;
	if (KSI_MetaData_new(ctx, &md) != KSI_OK) return nullptr;
	KSI_Utf8String *u = nullptr;
	// the setters take their own reference
	KSI_Utf8String_new(ctx, client.c_str(), client.size() + 1, &u); KSI_MetaData_setClientId(md, u); KSI_Utf8String_free(u);
	if (!machine.empty()) { u = nullptr; KSI_Utf8String_new(ctx, machine.c_str(), machine.size() + 1, &u); KSI_MetaData_setMachineId(md, u); KSI_Utf8String_free(u); }
	if (seq >= 0) { KSI_Integer *i = nullptr; KSI_Integer_new(ctx, (KSI_uint64_t)seq, &i); KSI_MetaData_setSequenceNr(md, i); KSI_Integer_free(i); }
	if (req_time >= 0) { KSI_Integer *i = nullptr; KSI_Integer_new(ctx, (KSI_uint64_t)req_time, &i); KSI_MetaData_setRequestTimeInMicros(md, i); KSI_Integer_free(i); }
	return md;
}

// metadata variant v (> 0) of leaf n: which optional fields are present
static void md_fields(uint64_t seed, uint64_t n, int64_t v, std::string &client, std::string &machine, int64_t &seq, int64_t &req_time) {
	client = "cl-" + std::to_string(seed % 1000) + "-" + std::to_string(n) + std::string((size_t)(v % 3), 'x');
	machine = (v & 2) ? "machine-" + std::to_string(n) : "";
	seq = (v & 4) ? (int64_t)n : -1;
	req_time = (v & 8) ? (int64_t)(1600000000000000LL + (int64_t)n) : -1;
}

// user-defined leaf processors (KSI_TreeBuilderLeafProcessor): processor k answers its n-th call with a fresh hash node of the
// level of the node it is shown; the builder joins it on the left and the level rises by the declared overhead of 1
struct ProcCtx { KSI_CTX *ctx; uint64_t seed; int k; uint64_t ctr; };
static std::string proc_imprint(uint64_t seed, int k, uint64_t n) { return imprint(1, "tb-proc-" + std::to_string(seed) + "-" + std::to_string(k) + "-" + std::to_string(n)); }
static int proc_fn(KSI_TreeNode *in, void *c, KSI_TreeNode **out) {
	ProcCtx *p = (ProcCtx *)c;
	KSI_DataHash *dh = sdk::hash_from_imprint(p->ctx, proc_imprint(p->seed, p->k, p->ctr++));
	if (!dh) return KSI_OUT_OF_MEMORY;
	int res = KSI_TreeNode_new(p->ctx, dh, NULL, in->level, out);
	KSI_DataHash_free(dh);
	return res;
}

struct TreeSim {
	const run::Plan &plan;
	KSI_CTX *ctx = nullptr;
	BlockingWorld bw;
	std::vector<uint64_t> states;
	bool nontrivial = false;
	explicit TreeSim(const run::Plan &p) : plan(p) {}

	struct Leaf { KSI_TreeLeafHandle *h = nullptr; std::string imp; int level = 0; bool md = false; };

	void tree_history() {
		int alg = plan.c("alg", 1) == 5 ? 5 : 1;
		KSI_TreeBuilder *b = nullptr;
		if (KSI_TreeBuilder_new(ctx, (KSI_HashAlgorithm)alg, &b) != KSI_OK) { K.inconclusive = true; return; }
		int maxlvl = (int)plan.c("maxlevel", 0);
		b->maxTreeLevel = (short)maxlvl;
		int nprocs = (int)(plan.c("procs", 0) % 3);
		ProcCtx pctx[2] = {{ctx, plan.seed, 0, 0}, {ctx, plan.seed, 1, 0}};
		KSI_TreeBuilderLeafProcessor procs[2] = {{proc_fn, &pctx[0], 1}, {proc_fn, &pctx[1], 1}};
		for (int k = 0; k < nprocs; k++) if (KSI_TreeBuilderLeafProcessorList_append(b->cbList, &procs[k]) != KSI_OK) { K.inconclusive = true; KSI_TreeBuilder_free(b); return; }
		if (nprocs) K.count("probe.leaf_processors");
		RefForest model; model.alg = alg;
		std::vector<Leaf> leaves;
		bool closed = false;
		uint64_t n = 0;
		for (auto &op : plan.ops) {
			if (K.failed()) break;
			if (op.k == "TB_ADD" && !closed) {
				int level = (int)op.arg(0);
				Leaf lf; lf.level = level;
				int64_t mdv = nprocs ? 0 : op.arg(3) % 16;       // > 0: a metadata leaf with this field variant
				KSI_DataHash *dh = nullptr; KSI_MetaData *md = nullptr;
				if (mdv > 0) {
					std::string cl, ma; int64_t sq, rt;
					md_fields(plan.seed, n++, mdv, cl, ma, sq, rt);
					lf.imp = metadata_payload_full(cl, ma, sq, rt); lf.md = true;
					md = make_metadata(ctx, cl, ma, sq, rt);
					K.count("probe.metadata_leaf");
				} else {
					lf.imp = imprint(op.arg(1) % 5 == 4 ? 5 : 1, "tb-leaf-" + std::to_string(plan.seed) + "-" + std::to_string(n++));
					dh = sdk::hash_from_imprint(ctx, lf.imp);
				}
				// would the model accept it?
				RefForest trial = model;
				bool fits = level >= 0 && level <= 255;
				if (fits && level + nprocs > 255) fits = false;
				if (fits && maxlvl > 0 && (level > maxlvl || model.highest(level + nprocs) > maxlvl)) fits = false;
				if (fits) {
					RNode nd; nd.imp = lf.imp; nd.level = level; nd.md = lf.md;
					for (int k = 0; k < nprocs; k++) { RNode pn; pn.imp = proc_imprint(plan.seed, k, pctx[k].ctr); pn.level = nd.level; nd = rjoin(pn, nd, alg); }
					fits = trial.insert(nd);
				}
				if (fits) { RNode r; fits = trial.root(r) || true; }
				int fail_idx = (int)op.arg(2); // > 0: the n-th allocation inside this add fails
				if (fail_idx > 0) { A.reset_counter(); A.fail_at = {(uint64_t)fail_idx}; A.armed = true; }
				int res = md ? KSI_TreeBuilder_addMetaData(b, md, level, &lf.h) : KSI_TreeBuilder_addDataHash(b, dh, level, &lf.h);
				bool fired = A.fired > 0;
				A.armed = false; A.fail_at.clear();
				KSI_DataHash_free(dh);
				KSI_MetaData_free(md);
				K.ev("TB_ADD level=%d%s -> 0x%x%s", level, lf.md ? " metadata" : "", res, fired ? " (allocation failed)" : "");
				if (fired) { nontrivial = true; K.count("fault.alloc_fail_in_add"); }
				if (res == KSI_OK) {
					if (!fits) { K.fail("C16", "leaf-accepted-beyond-limits", "tree-builder", "a leaf of level %d was accepted although the tree would exceed the maximum level / level range", level); break; }
					model = trial;
					leaves.push_back(lf);
					K.count("outcome.leaf_accepted");
				} else {
					K.count("outcome.leaf_refused");
					if (fits && !fired) { K.fail("C16", "leaf-wrongly-refused", "tree-builder", "a leaf of level %d was refused (0x%x) although it fits", level, res); break; }
					if (!fits) nontrivial = true;
					if (lf.h) { K.fail("C16", "handle-returned-for-refused-leaf", "tree-builder", "a refused add returned a leaf handle"); }
				}
			} else if (op.k == "TB_PROOF" && !closed && !leaves.empty()) {
				// proofs read while the tree is still open: the chain of an accepted leaf leads to the root of the subtree that holds
				// it now, i.e. to one of the roots of the canonical forest (in particular right after a leaf was refused)
				size_t from = (size_t)op.arg(0) % leaves.size(), cnt = 1 + (size_t)op.arg(1) % 8;
				for (size_t i = from; i < leaves.size() && i < from + cnt; i++) {
					if (leaves[i].md) continue;
					KSI_AggregationHashChain *ch = nullptr;
					int r2 = KSI_TreeLeafHandle_getAggregationChain(leaves[i].h, &ch);
					if (r2 != KSI_OK) { K.fail("C16", "chain-extraction-failed", "open-tree", "leaf %zu: getAggregationChain on the open tree failed with 0x%x", i, r2); break; }
					AggChain ac; std::string out = leaves[i].imp; int el = leaves[i].level;
					bool good = chain_of(ctx, ch, ac) && ac.input == leaves[i].imp && (ac.links.empty() || fold_agg(ac, leaves[i].level, out, el));
					KSI_AggregationHashChain_free(ch);
					bool found = false;
					for (auto &sl : model.stack) if (sl && !sl->md && sl->imp == out && sl->level == el) found = true;
					if (!good || !found) { K.fail("C16", "open-tree-proof-leads-nowhere", "tree-builder", "leaf %zu (level %d): its chain read from the open tree does not lead to a root of the canonical forest (level %d)", i, leaves[i].level, el); break; }
					K.count("outcome.open_tree_proof");
				}
			} else if (op.k == "TB_CLOSE" && !closed) {
				int res = KSI_TreeBuilder_close(b);
				K.ev("TB_CLOSE -> 0x%x", res);
				if (leaves.empty()) { if (res == KSI_OK) K.fail("C16", "empty-tree-closed", "tree-builder", "closing an empty tree succeeded"); continue; }
				RNode want;
				bool ok = model.root(want);
				if (res != KSI_OK) { if (ok) K.fail("C16", "close-failed", "tree-builder", "closing the tree failed with 0x%x", res); continue; }
				closed = true;
				if (!ok) { K.fail("C16", "closed-beyond-level-range", "tree-builder", "the tree was closed although its root level leaves 0..255"); break; }
				std::string got = sdk::imprint_of(b->rootNode ? b->rootNode->hash : nullptr);
				int glevel = b->rootNode ? (int)b->rootNode->level : -1;
				if (want.md) got = want.imp; // a tree of one metadata leaf has no root hash to compare
				if (got != want.imp || glevel != want.level) { K.fail("C16", "root-differs-from-canonical-forest", "tree-builder", "builder root (level %d) differs from the canonical left-to-right merge (level %d)", glevel, want.level); break; }
				// every accepted leaf proves to the root
				for (size_t i = 0; i < leaves.size(); i++) {
					KSI_AggregationHashChain *ch = nullptr;
					int r2 = KSI_TreeLeafHandle_getAggregationChain(leaves[i].h, &ch);
					if (leaves[i].md) { K.ev("metadata leaf %zu: getAggregationChain -> 0x%x", i, r2); KSI_AggregationHashChain_free(ch); continue; } // not the input of a hash chain
					if (r2 != KSI_OK) { K.fail("C16", "chain-extraction-failed", "tree-builder", "leaf %zu: getAggregationChain failed with 0x%x", i, r2); break; }
					AggChain ac;
					std::string out; int el = 0;
					bool good = chain_of(ctx, ch, ac) && ac.input == leaves[i].imp && (leaves.size() == 1 || fold_agg(ac, leaves[i].level, out, el));
					if (leaves.size() == 1) { out = leaves[i].imp; el = leaves[i].level; good = good || true; if (!ac.links.empty()) good = fold_agg(ac, leaves[i].level, out, el); }
					KSI_AggregationHashChain_free(ch);
					if (!good || out != want.imp || el != want.level) { K.fail("C16", "leaf-chain-does-not-prove-root", "tree-builder", "leaf %zu (level %d): its aggregation chain does not recompute the root (got level %d, want %d)", i, leaves[i].level, el, want.level); break; }
					K.count("outcome.leaf_proved");
				}
			}
			states.push_back(mix(leaves.size(), closed));
		}
		for (auto &l : leaves) KSI_TreeLeafHandle_free(l.h);
		KSI_TreeBuilder_free(b);
	}

	// block signer: masking chain + canonical forest, reset, sign through the simulated aggregator
	struct BsRun { std::string root_seen; std::vector<std::string> leaf_hashes; bool ok = false; };

	BsRun bs_run(const std::vector<run::Op> &adds, bool check_sigs, const char *tag) {
		BsRun out;
		KSI_BlockSigner *bs = nullptr; KSI_OctetString *iv = nullptr; KSI_DataHash *zero = nullptr;
		bool masking = plan.c("masking", 1) != 0;
		std::string ivb = "ksisim-iv-0123456789abcdef012345";
		if (masking) { KSI_OctetString_new(ctx, (const unsigned char *)ivb.data(), ivb.size(), &iv); KSI_DataHash_createZero(ctx, KSI_HASHALG_SHA2_256, &zero); }
		if (KSI_BlockSigner_new(ctx, KSI_HASHALG_SHA2_256, zero, iv, &bs) != KSI_OK) { K.inconclusive = true; KSI_OctetString_free(iv); KSI_DataHash_free(zero); return out; }
		std::vector<KSI_BlockSignerHandle *> hs;
		RefForest model;
		std::string prev = sdk::imprint_of(zero);
		size_t n = 0;
		for (auto &op : adds) {
			std::string imp = imprint(1, std::string("bs-leaf-") + std::to_string(plan.seed) + "-" + std::to_string(op.arg(1)));
			int level = (int)op.arg(0);
			KSI_DataHash *dh = sdk::hash_from_imprint(ctx, imp);
			KSI_BlockSignerHandle *h = nullptr;
			int64_t mdv = op.arg(2) % 16;            // > 0: per-leaf metadata with this field variant
			KSI_MetaData *md = nullptr;
			RNode mdnode; mdnode.md = true; mdnode.level = level;
			if (mdv > 0) {
				std::string cl, ma; int64_t sq, rt;
				md_fields(plan.seed, (uint64_t)op.arg(1), mdv, cl, ma, sq, rt);
				mdnode.imp = metadata_payload_full(cl, ma, sq, rt);
				md = make_metadata(ctx, cl, ma, sq, rt);
				K.count("probe.leaf_with_metadata");
			}
			int res = KSI_BlockSigner_addLeaf(bs, dh, level, md, &h);
			KSI_DataHash_free(dh);
			KSI_MetaData_free(md);
			K.ev("%s BS_ADD level=%d%s -> 0x%x", tag, level, mdv > 0 ? " +metadata" : "", res);
			RNode leaf; leaf.imp = imp; leaf.level = level;
			RNode node = leaf;
			bool fits = level >= 0 && level <= 255;
			std::string nprev = prev;
			// the metadata element is joined first (it must be the first link), the blinding mask second
			if (fits && mdv > 0) {
				if (level + 1 > 255) fits = false;
				else node = rjoin(mdnode, node, 1);
			}
			if (fits && masking) {
				RNode mask; mask.level = node.level; mask.imp = imprint(1, prev + ivb);
				if (node.level + 1 > 255) fits = false;
				else { node = rjoin(mask, node, 1); nprev = node.imp; }
			}
			RefForest trial = model;
			if (fits) fits = trial.insert(node);
			if (res == KSI_OK) {
				if (!fits) { K.fail("C16", "leaf-accepted-beyond-limits", "block-signer", "%s: a leaf of level %d was accepted although its level arithmetic leaves 0..255", tag, level); break; }
				model = trial; prev = nprev;
				hs.push_back(h);
				out.leaf_hashes.push_back(imp);
			} else {
				if (fits) { K.fail("C16", "leaf-wrongly-refused", "block-signer", "%s: a leaf of level %d was refused (0x%x)", tag, level, res); break; }
				nontrivial = true;
			}
			n++;
		}
		if (!K.failed() && !hs.empty()) {
			CallEnv ce; ce.subseed = (uint64_t)plan.c("subseed", 5);
			size_t served0 = bw.served.size();
			bw.arm(ce);
			int res = KSI_BlockSigner_closeAndSign(bs);
			bw.disarm();
			K.ev("%s BS_CLOSE -> 0x%x", tag, res);
			RNode want;
			bool okroot = model.root(want);
			if (bw.served.size() > served0) {
				const ServedRequest &sr = bw.served[served0];
				out.root_seen = sr.info.hash;
				if (bw.served.size() > served0 + 1) K.fail("C16", "more-than-one-aggregation-request", "block-signer", "%s: closing the block produced %zu aggregation requests", tag, bw.served.size() - served0);
				// with masking the property does not fix the mask chain (after a refused leaf the SDK's chain has already advanced), so the
				// root is compared with the model only for the unmasked signer; the per-leaf signatures are checked in every case
				if (okroot && !masking && (sr.info.hash != want.imp || (sr.info.has_level ? (int)sr.info.level : 0) != want.level))
					K.fail("C16", "root-differs-from-canonical-forest", "block-signer", "%s: the aggregation request carries another root hash / level (%llu) than the canonical forest with the masking chain (level %d)", tag, (unsigned long long)sr.info.level, want.level);
			}
			if (res == KSI_OK && check_sigs) {
				out.ok = true;
				for (size_t i = 0; i < hs.size() && !K.failed(); i++) {
					KSI_Signature *sig = nullptr;
					int r2 = KSI_BlockSignerHandle_getSignature(hs[i], &sig);
					if (r2 != KSI_OK) { K.fail("C16", "leaf-signature-unavailable", "block-signer", "%s: leaf %zu: getSignature failed with 0x%x", tag, i, r2); break; }
					std::string bytes = sdk::serialize(sig);
					KSI_Signature_free(sig);
					SigView v; SigFacts f;
					if (parse_signature(bytes, v)) f = evaluate(v);
					if (!f.consistent || f.input_hash != out.leaf_hashes[i]) { K.fail("C16", "leaf-signature-invalid", f.why, "%s: the signature of leaf %zu does not verify for that leaf's hash (%s)", tag, i, f.why.c_str()); break; }
					K.count("outcome.leaf_signature_ok");
				}
			} else if (res == KSI_OK) out.ok = true;
			else if (okroot && !(bw.served.size() > served0 && bw.served[served0].meta.behav == B_STATUS_ERR)) K.fail("C16", "close-and-sign-failed", "block-signer", "%s: closeAndSign failed with 0x%x against an honest aggregator", tag, res);
		}
		for (auto *h : hs) KSI_BlockSignerHandle_free(h);
		KSI_BlockSigner_free(bs);
		KSI_OctetString_free(iv);
		KSI_DataHash_free(zero);
		return out;
	}

	void bs_history() {
		// ops: BS_ADD level id ..., BS_RESET at some point; a reset signer must behave like a new one for the suffix
		std::vector<run::Op> before, after;
		bool reset = false;
		for (auto &op : plan.ops) { if (op.k == "BS_RESET") { reset = true; continue; } if (op.k == "BS_ADD") (reset ? after : before).push_back(op); }
		if (!reset) { bs_run(before, true, "signer"); return; }
		// signer A: before ..., reset, after ... ; signer B: new, after ...
		KSI_BlockSigner *bs = nullptr; KSI_OctetString *iv = nullptr; KSI_DataHash *zero = nullptr;
		bool masking = plan.c("masking", 1) != 0;
		std::string ivb = "ksisim-iv-0123456789abcdef012345";
		if (masking) { KSI_OctetString_new(ctx, (const unsigned char *)ivb.data(), ivb.size(), &iv); KSI_DataHash_createZero(ctx, KSI_HASHALG_SHA2_256, &zero); }
		if (KSI_BlockSigner_new(ctx, KSI_HASHALG_SHA2_256, zero, iv, &bs) != KSI_OK) { K.inconclusive = true; KSI_OctetString_free(iv); KSI_DataHash_free(zero); return; }
		auto add_all = [&](const std::vector<run::Op> &ops, std::vector<KSI_BlockSignerHandle *> *keep) {
			for (auto &op : ops) {
				KSI_DataHash *dh = sdk::hash_from_imprint(ctx, imprint(1, std::string("bs-leaf-") + std::to_string(plan.seed) + "-" + std::to_string(op.arg(1))));
				KSI_BlockSignerHandle *h = nullptr;
				KSI_MetaData *md = nullptr;
				if (op.arg(2) % 16 > 0) { std::string cl, ma; int64_t sq, rt; md_fields(plan.seed, (uint64_t)op.arg(1), op.arg(2) % 16, cl, ma, sq, rt); md = make_metadata(ctx, cl, ma, sq, rt); }
				int res = KSI_BlockSigner_addLeaf(bs, dh, (int)op.arg(0), md, keep ? &h : NULL);
				KSI_DataHash_free(dh);
				KSI_MetaData_free(md);
				K.ev("reset-signer BS_ADD level=%lld -> 0x%x", (long long)op.arg(0), res);
				if (h) keep->push_back(h);
			}
		};
		std::vector<KSI_BlockSignerHandle *> old_handles, hs;
		add_all(before, &old_handles);
		if (plan.c("close_before_reset", 0) && !before.empty()) { CallEnv ce; ce.subseed = 3; bw.arm(ce); KSI_BlockSigner_closeAndSign(bs); bw.disarm(); }
		int rr = KSI_BlockSigner_reset(bs);
		K.ev("BS_RESET -> 0x%x", rr);
		nontrivial = true;
		for (auto *h : old_handles) KSI_BlockSignerHandle_free(h);
		if (rr != KSI_OK) { K.fail("C16", "reset-failed", "block-signer", "KSI_BlockSigner_reset failed with 0x%x", rr); }
		else {
			add_all(after, &hs);
			std::string rootA;
			if (!hs.empty()) {
				CallEnv ce; ce.subseed = (uint64_t)plan.c("subseed", 5);
				size_t served0 = bw.served.size();
				bw.arm(ce);
				int res = KSI_BlockSigner_closeAndSign(bs);
				bw.disarm();
				K.ev("reset-signer BS_CLOSE -> 0x%x", res);
				if (bw.served.size() > served0) rootA = bw.served[served0].info.hash + ":" + std::to_string(bw.served[served0].info.level);
			}
			for (auto *h : hs) KSI_BlockSignerHandle_free(h);
			KSI_BlockSigner_free(bs); bs = nullptr;
			BsRun b = bs_run(after, true, "fresh-signer");
			if (!K.failed() && !after.empty()) {
				std::string rootB;
				if (!bw.served.empty()) rootB = bw.served.back().info.hash + ":" + std::to_string(bw.served.back().info.level);
				if (!rootA.empty() && !b.root_seen.empty() && rootA != rootB)
					K.fail("C16", "reset-signer-differs-from-new-signer", "block-signer", "after reset the signer produced another root for the same leaves than a newly created signer");
				else K.count("outcome.reset_equals_fresh");
			}
		}
		if (bs) KSI_BlockSigner_free(bs);
		KSI_OctetString_free(iv);
		KSI_DataHash_free(zero);
	}

	run::RunResult run(bool trace) {
		run::RunResult rr;
		K.trace = trace;
		K.reset(EPOCH_MS);
		N.reset(); C.reset(); A.reset_all();
		bw.setup(2, 1, 8, 6, plan.c("aggr_http", 0) != 0, false);
		bw.install_hooks();
		ctx = sdk::new_ctx(0);
		bw.attach(ctx);
		if (plan.c("mode", 0) == 0) tree_history(); else bs_history();
		KSI_CTX_free(ctx);
		rr.hash = K.hash; rr.violations = K.violations; rr.counters = K.counters; rr.sim_ms = K.elapsed_ms;
		rr.inconclusive = K.inconclusive; rr.nontrivial = nontrivial; rr.abstract_states = states;
		if (trace) rr.log = K.log;
		K.trace = false;
		return rr;
	}
};

// ----------------------------------------------------------------------------------------------------------------------
// C11: histories on one shared context vs. the same operation on a fresh context

struct Triple { int res = 0, rc = -1, ec = -1; bool cut = false; bool operator==(const Triple &o) const { return res == o.res && rc == o.rc && ec == o.ec; } };

static uint64_t str_kind(const std::string &k) { uint64_t h = 1469598103934665603ULL; for (char c : k) h = (h ^ (unsigned char)c) * 1099511628211ULL; return h; }

struct CtxSim {
	const run::Plan &plan;
	KSI_CTX *ctx = nullptr;
	BlockingWorld bw;
	struct Live { KSI_Signature *sig = nullptr; std::string bytes; std::string hash; uint64_t level = 0; uint64_t agg = 0, pub = 0; std::string cal_root; bool has_cal = false; bool block = false; };
	// a local block: leaves aggregated by a tree builder on the shared context; its root was signed (live signature marked `block`).
	// A leaf chain object is kept and offered again as long as no append has accepted it.
	struct Block {
		std::vector<std::string> leaf_imps; int leaf_level = 0;
		std::string root; int root_level = 0;
		KSI_TreeBuilder *tb = nullptr; std::vector<KSI_TreeLeafHandle *> hs; std::vector<KSI_AggregationHashChain *> chains;
	} blk;
	bool build_block(KSI_CTX *c, Block &b, bool keep) {
		if (KSI_TreeBuilder_new(c, KSI_HASHALG_SHA2_256, &b.tb) != KSI_OK) return false;
		b.hs.assign(b.leaf_imps.size(), nullptr); b.chains.assign(b.leaf_imps.size(), nullptr);
		for (size_t i = 0; i < b.leaf_imps.size(); i++) {
			KSI_DataHash *dh = sdk::hash_from_imprint(c, b.leaf_imps[i]);
			int res = KSI_TreeBuilder_addDataHash(b.tb, dh, b.leaf_level, &b.hs[i]);
			KSI_DataHash_free(dh);
			if (res != KSI_OK) return false;
		}
		if (KSI_TreeBuilder_close(b.tb) != KSI_OK || !b.tb->rootNode) return false;
		if (keep) { b.root = sdk::imprint_of(b.tb->rootNode->hash); b.root_level = (int)b.tb->rootNode->level; }
		return true;
	}
	void free_block(Block &b) {
		for (auto *c : b.chains) KSI_AggregationHashChain_free(c);
		for (auto *h : b.hs) KSI_TreeLeafHandle_free(h);
		KSI_TreeBuilder_free(b.tb);
		b.chains.clear(); b.hs.clear(); b.tb = nullptr;
	}
	struct Derived { int res = -1; std::string bytes; KSI_Signature *sig = nullptr; bool appended = false; };
	Derived prepend_on(KSI_Signature *src, Block &b, size_t k, uint64_t start_level, uint64_t root_level) {
		Derived d;
		if (!b.chains[k] && KSI_TreeLeafHandle_getAggregationChain(b.hs[k], &b.chains[k]) != KSI_OK) { d.res = -2; return d; }
		KSI_SignatureBuilder *sb = nullptr;
		d.res = KSI_SignatureBuilder_openFromSignature(src, &sb);
		if (d.res == KSI_OK) d.res = KSI_SignatureBuilder_setAggregationChainStartLevel(sb, start_level);
		if (d.res == KSI_OK) { d.res = KSI_SignatureBuilder_appendAggregationChain(sb, b.chains[k]); d.appended = d.res == KSI_OK; }
		if (d.res == KSI_OK) d.res = KSI_SignatureBuilder_close(sb, root_level, &d.sig);
		KSI_SignatureBuilder_free(sb);
		if (d.res == KSI_OK && d.sig) d.bytes = sdk::serialize(d.sig);
		return d;
	}
	std::vector<Live> live;
	std::vector<uint64_t> states;
	bool nontrivial = false;
	explicit CtxSim(const run::Plan &p) : plan(p) {}

	void check_all_unchanged(const char *after) {
		for (size_t i = 0; i < live.size(); i++) {
			std::string now = sdk::serialize(live[i].sig);
			if (now != live[i].bytes) { K.fail("C11", "signature-serialization-changed", after, "the serialization of live signature %zu changed after %s", i, after); return; }
		}
	}

	static const KSI_Policy *policy_of(int p) {
		switch (p % 4) {
			case 0: return KSI_VERIFICATION_POLICY_INTERNAL;
			case 1: return KSI_VERIFICATION_POLICY_CALENDAR_BASED;
			case 2: return KSI_VERIFICATION_POLICY_USER_PUBLICATION_BASED;
			default: return KSI_VERIFICATION_POLICY_GENERAL;
		}
	}

	Triple verify_on(KSI_CTX *c, KSI_Signature *sig, const run::Op &op, const Live &lv) {
		Triple t;
		KSI_VerificationContext vc;
		KSI_PolicyVerificationResult *pr = nullptr;
		KSI_DataHash *dh = nullptr; KSI_PublicationData *pd = nullptr;
		if (KSI_VerificationContext_init(&vc, c) != KSI_OK) { t.res = -1; return t; }
		vc.signature = sig;
		int dk = (int)(op.arg(2) % 4);   // 0 none, 1 matching, 2 other digest, 3 other algorithm
		if (dk == 1) dh = sdk::hash_from_imprint(c, lv.hash);
		else if (dk == 2) dh = sdk::hash_from_imprint(c, imprint((unsigned char)lv.hash[0], "another document"));
		else if (dk == 3) dh = sdk::hash_from_imprint(c, imprint((unsigned char)lv.hash[0] == 1 ? 5 : 1, "another document"));
		vc.documentHash = dh;
		static const uint64_t levels[] = {0, 0, 1, 3, 100, 255, 256, 1000};
		vc.docAggrLevel = dh ? levels[op.arg(3) % 8] : 0;
		vc.extendingAllowed = (int)(op.arg(4) % 2);
		int pk = (int)(op.arg(5) % 4);   // user publication: 0 none, 1 matching (where possible), 2 other hash, 3 later time
		if (pk != 0) {
			uint64_t ptime = lv.has_cal ? lv.pub : lv.agg;
			std::string proot = lv.has_cal ? lv.cal_root : bw.world.cal.root(ptime);
			if (pk == 2) proot = imprint(1, "another root");
			if (pk == 3) { ptime = std::min<uint64_t>(bw.world.head(), ptime + 2); proot = bw.world.cal.root(ptime); }
			KSI_Integer *ti = nullptr;
			KSI_PublicationData_new(c, &pd);
			KSI_Integer_new(c, ptime, &ti);
			KSI_PublicationData_setTime(pd, ti);
			KSI_PublicationData_setImprint(pd, sdk::hash_from_imprint(c, proot));
			vc.userPublication = pd;
		}
		CallEnv e;
		e.behav = plan.c("adv", 1) ? (int)(op.arg(6) % B__COUNT) : B_HONEST;
		if (e.behav == B_CONF_ONLY || e.behav == B_TRUNCATED) e.behav = B_GARBAGE_PDU;
		e.subseed = (uint64_t)op.arg(7);
		e.fault = plan.c("faults", 0) ? (int)(op.arg(8) % 4) : 0;
		e.fault_at = (size_t)op.arg(9);
		bw.arm(e);
		t.res = KSI_SignatureVerifier_verify(policy_of((int)op.arg(1)), &vc, &pr);
		t.cut = bw.fault_fired;
		bw.disarm();
		if (pr) { t.rc = (int)pr->finalResult.resultCode; t.ec = (int)pr->finalResult.errorCode; }
		KSI_PolicyVerificationResult_free(pr);
		vc.signature = NULL; vc.documentHash = NULL; vc.userPublication = NULL;
		KSI_VerificationContext_clean(&vc);
		KSI_DataHash_free(dh);
		KSI_PublicationData_free(pd);
		return t;
	}

	void add_live(KSI_Signature *s, const std::string &bytes, const std::string &hash, uint64_t level, bool block = false) {
		Live l; l.sig = s; l.bytes = bytes; l.hash = hash; l.level = level; l.block = block;
		SigView v;
		if (parse_signature(bytes, v)) { SigFacts f = evaluate(v); l.agg = f.agg_time; l.has_cal = v.has_cal; l.pub = v.has_cal ? v.cal.pub : 0; l.cal_root = f.cal_root; }
		live.push_back(l);
	}

	void exec(const run::Op &op) {
		if (live.empty() && op.k != "SIGN") return;
		if (op.k == "PARSE") {
			Live &src = live[(size_t)op.arg(0) % live.size()];
			int res = 0;
			KSI_Signature *s = sdk::parse_sig(ctx, src.bytes, &res);
			K.ev("PARSE -> 0x%x", res);
			if (!s) { K.fail("C11", "accepted-signature-rejected-later", "parse", "a signature the context accepted before is rejected now (0x%x)", res); return; }
			std::string back = sdk::serialize(s);
			if (back != src.bytes) K.fail("C11", "parse-serialize-not-identical", "parse", "a parsed signature does not re-serialize to the bytes it was parsed from");
			add_live(s, back, src.hash, src.level, src.block);
		} else if (op.k == "CLONE") {
			Live &src = live[(size_t)op.arg(0) % live.size()];
			KSI_Signature *c = nullptr;
			int res = KSI_Signature_clone(src.sig, &c);
			K.ev("CLONE -> 0x%x", res);
			if (res != KSI_OK) { K.fail("C11", "clone-failed", "clone", "cloning failed with 0x%x", res); return; }
			std::string b = sdk::serialize(c);
			if (b != src.bytes) K.fail("C11", "clone-serializes-differently", "clone", "a clone serializes differently from its original");
			add_live(c, b, src.hash, src.level, src.block);
		} else if (op.k == "VERIFY") {
			size_t idx = (size_t)op.arg(0) % live.size();
			Live lv = live[idx];
			// optionally the n-th allocation of this (first) verification fails: whatever it then reports, the serialization and the
			// verdict of the later verifications of the same object are those of an undisturbed one
			int fail_idx = (int)op.arg(11);
			if (fail_idx > 0) {
				// ... of a fresh clone (whose lazily expanded parts are still raw), which then joins the live signatures
				KSI_Signature *c = nullptr;
				if (KSI_Signature_clone(live[idx].sig, &c) == KSI_OK && c) { add_live(c, lv.bytes, lv.hash, lv.level, lv.block); idx = live.size() - 1; lv = live[idx]; }
				A.reset_counter(); A.fail_at = {(uint64_t)fail_idx}; A.armed = true;
			}
			Triple a = verify_on(ctx, live[idx].sig, op, lv);
			bool alloc_failed = fail_idx > 0 && A.fired > 0;
			A.armed = false; A.fail_at.clear();
			if (alloc_failed) { K.count("fault.alloc_fail_in_verification"); nontrivial = true; }
			check_all_unchanged("verify");
			// the same verification again
			Triple b = verify_on(ctx, live[idx].sig, op, lv);
			// and on a fresh context with a fresh parse
			KSI_CTX *fc = sdk::new_ctx((int)(op.arg(10) % 2 ? 5 : 0));
			bw.attach(fc);
			KSI_CTX_setTransferTimeoutSeconds(fc, 5);
			int pres = 0;
			KSI_Signature *fs = sdk::parse_sig(fc, lv.bytes, &pres);
			Triple f;
			if (fs) f = verify_on(fc, fs, op, lv);
			K.ev("VERIFY sig=%zu policy=%lld -> res=0x%x rc=%d ec=%d | again res=0x%x rc=%d ec=%d | fresh res=0x%x rc=%d ec=%d", idx, (long long)(op.arg(1) % 4), a.res, a.rc, a.ec, b.res, b.rc, b.ec, f.res, f.rc, f.ec);
			K.count(a.rc == 0 ? "outcome.verify_ok" : a.rc == 1 ? "outcome.verify_na" : "outcome.verify_fail");
			if (op.arg(1) % 4 != 0 || op.arg(2) % 4 != 0) nontrivial = true;
			if (alloc_failed) {
				if (fs && b.cut == f.cut && !(b == f)) K.fail("C11", "verdict-changed-by-a-failed-verification", "verify", "after a verification in which an allocation failed (0x%x,%d,%d) the same verification gives (0x%x,%d,%d), on a fresh context (0x%x,%d,%d)", a.res, a.rc, a.ec, b.res, b.rc, b.ec, f.res, f.rc, f.ec);
			} else
			if (a.cut != b.cut) K.count("probe.fault_cut_only_one_of_the_twin_replies");
			else if (!(a == b)) K.fail("C11", "verification-not-repeatable", "verify", "the same verification twice gives (0x%x,%d,%d) then (0x%x,%d,%d)", a.res, a.rc, a.ec, b.res, b.rc, b.ec);
			// the transport fault sits at a byte offset; the reply to a long-lived context is a byte longer once its request ids need
			// two bytes, so the same offset may cut one reply and spare the other: only like is compared with like
			if (alloc_failed) ;
			else if (fs && a.cut != f.cut) K.count("probe.fault_cut_only_one_of_the_twin_replies");
			else if (fs && !(a == f)) K.fail("C11", "verdict-depends-on-context-history", "verify", "verdict on the shared context (0x%x,%d,%d) differs from the verdict on a fresh context (0x%x,%d,%d)", a.res, a.rc, a.ec, f.res, f.rc, f.ec);
			if (!fs) K.fail("C11", "accepted-signature-rejected-later", "fresh-parse", "a fresh context rejects the signature (0x%x)", pres);
			if (fs) KSI_Signature_free(fs);
			KSI_CTX_free(fc);
		} else if (op.k == "EXTEND") {
			size_t idx = (size_t)op.arg(0) % live.size();
			CallEnv e;
			e.behav = plan.c("adv", 1) ? (int)(op.arg(1) % B__COUNT) : B_HONEST;
			if (e.behav == B_CONF_ONLY || e.behav == B_TRUNCATED) e.behav = B_GARBAGE_PDU;
			e.subseed = (uint64_t)op.arg(2);
			e.fault = plan.c("faults", 0) ? (int)(op.arg(3) % 4) : 0;
			bw.arm(e);
			KSI_Signature *out = nullptr;
			int res = KSI_Signature_extendTo(live[idx].sig, ctx, NULL, &out);
			bw.disarm();
			K.ev("EXTEND sig=%zu -> 0x%x", idx, res);
			nontrivial = true;
			check_all_unchanged("extend");
			if (res == KSI_OK && out) add_live(out, sdk::serialize(out), live[idx].hash, live[idx].level, live[idx].block);
		} else if (op.k == "SIGN") {
			std::string hash = imprint(1, "hist-doc-" + std::to_string(plan.seed) + "-" + std::to_string(live.size()));
			KSI_DataHash *dh = sdk::hash_from_imprint(ctx, hash);
			CallEnv e;
			e.behav = plan.c("adv", 1) && op.arg(1) % 3 == 0 ? (int)(op.arg(1) % B__COUNT) : B_HONEST;
			if (e.behav == B_CONF_ONLY || e.behav == B_TRUNCATED) e.behav = B_GARBAGE_PDU;
			e.subseed = (uint64_t)op.arg(2);
			bw.arm(e);
			KSI_Signature *out = nullptr;
			uint64_t level = (uint64_t)(op.arg(0) % 3);
			int res = KSI_Signature_signAggregated(ctx, dh, level, &out);
			bw.disarm();
			KSI_DataHash_free(dh);
			K.ev("SIGN -> 0x%x", res);
			check_all_unchanged("sign");
			if (res == KSI_OK && out) add_live(out, sdk::serialize(out), hash, level);
		} else if (op.k == "PREPEND") {
			// derive a leaf signature by prepending the leaf's local aggregation chain to a signature of the block's root
			std::vector<size_t> cand;
			for (size_t i = 0; i < live.size(); i++) if (live[i].block) cand.push_back(i);
			if (cand.empty() || blk.hs.empty()) return;
			size_t idx = cand[(size_t)op.arg(0) % cand.size()];
			size_t k = (size_t)op.arg(1) % blk.hs.size();
			static const int64_t deltas[] = {0, 0, 0, 1, 2, -1};
			int64_t sl = blk.leaf_level + deltas[op.arg(2) % 6];
			uint64_t start_level = (uint64_t)std::max<int64_t>(0, sl);
			uint64_t root_level = op.arg(3) % 3 == 0 ? 0 : op.arg(3) % 3 == 1 ? (uint64_t)blk.leaf_level : 3;
			Derived a = prepend_on(live[idx].sig, blk, k, start_level, root_level);
			// a successful append "updates aggregation time and chain index" of the chain it is given (documented), so the object is
			// spent; after a refused append the same object is offered again (its cached output hash must not matter)
			if (a.appended) { KSI_AggregationHashChain_free(blk.chains[k]); blk.chains[k] = nullptr; K.count("probe.chain_object_spent"); }
			else K.count("probe.chain_object_reused_after_refusal");
			check_all_unchanged("prepend");
			// the same derivation on a fresh context: fresh parse of the source, fresh tree, fresh chain object
			KSI_CTX *fc = sdk::new_ctx(0);
			int pres = 0;
			KSI_Signature *fs = sdk::parse_sig(fc, live[idx].bytes, &pres);
			Block fb; fb.leaf_imps = blk.leaf_imps; fb.leaf_level = blk.leaf_level;
			Derived f;
			if (fs && build_block(fc, fb, false)) f = prepend_on(fs, fb, k, start_level, root_level);
			K.ev("PREPEND sig=%zu leaf=%zu start=%llu root_level=%llu -> 0x%x | fresh 0x%x", idx, k, (unsigned long long)start_level, (unsigned long long)root_level, a.res, f.res);
			nontrivial = true;
			if (a.res != f.res) K.fail("C11", "derivation-depends-on-context-history", "prepend", "prepending leaf %zu's chain (start level %llu) gives 0x%x on the shared objects and 0x%x on fresh ones", k, (unsigned long long)start_level, a.res, f.res);
			else if (a.res == KSI_OK && a.bytes != f.bytes) K.fail("C11", "derived-signature-differs-from-fresh-twin", "prepend", "the signature derived for leaf %zu differs from the one derived on fresh objects", k);
			if (a.res == KSI_OK && a.sig && !K.failed()) {
				SigView v; SigFacts ff;
				if (parse_signature(a.bytes, v)) ff = evaluate(v);
				int vres = KSI_Signature_verifyWithPolicy(a.sig, NULL, 0, KSI_VERIFICATION_POLICY_INTERNAL, NULL);
				int pr2 = 0;
				KSI_Signature *again = sdk::parse_sig(ctx, a.bytes, &pr2);
				bool good = ff.consistent && ff.input_hash == blk.leaf_imps[k];
				if (!good) K.fail("C11", "derived-signature-invalid", ff.why.empty() ? "input" : ff.why, "the signature derived for leaf %zu is not a valid signature of that leaf (%s)", k, ff.why.c_str());
				else if (vres != KSI_OK || !again) K.fail("C11", "verdict-differs-between-object-and-serialization", "prepend", "derived signature: in-memory internal verification 0x%x, parsing its own serialization 0x%x, independent evaluation valid", vres, pr2);
				if (again) KSI_Signature_free(again);
				K.count("outcome.leaf_signature_derived");
				add_live(a.sig, a.bytes, blk.leaf_imps[k], root_level);
				a.sig = nullptr;
			} else K.count("outcome.derivation_refused");
			if (a.sig) KSI_Signature_free(a.sig);
			if (f.sig) KSI_Signature_free(f.sig);
			if (fs) KSI_Signature_free(fs);
			free_block(fb);
			KSI_CTX_free(fc);
		} else if (op.k == "LOGLEVEL") {
			KSI_CTX_setLogLevel(ctx, (int)(op.arg(0) % 6));
		} else if (op.k == "TICK") {
			K.advance(std::max<int64_t>(1, op.arg(0)));
		} else if (op.k == "FREE" && live.size() > 1) {
			size_t idx = (size_t)op.arg(0) % live.size();
			KSI_Signature_free(live[idx].sig);
			live.erase(live.begin() + (long)idx);
		}
		states.push_back(mix(live.size(), str_kind(op.k)));
	}

	run::RunResult run(bool trace) {
		run::RunResult rr;
		K.trace = trace;
		K.reset(EPOCH_MS + plan.c("epoch_ms", 0) % 1000);
		N.reset(); C.reset();
		bw.setup(plan.c("pdu_ver", 2) == 1 ? 1 : 2, 1, 8, 6, plan.c("aggr_http", 0) != 0, plan.c("ext_http", 0) != 0);
		bw.install_hooks();
		ctx = sdk::new_ctx((int)plan.c("loglevel", 0));
		bw.attach(ctx);
		KSI_CTX_setTransferTimeoutSeconds(ctx, 5);
		for (int i = 0; i < 3; i++) {
			ReplyMeta m;
			std::string hash = imprint(i == 2 ? 5 : 1, "hist-src-" + std::to_string(plan.seed) + "-" + std::to_string(i));
			uint64_t level = i == 1 ? 2 : 0;
			if (i == 1) {
				// the level-2+ signature is the signature of a local block's root
				int nl = 2 + (int)(plan.c("block_leaves", 2) % 5);
				blk.leaf_level = (int)(plan.c("block_leaf_level", 0) % 3);
				for (int q = 0; q < nl; q++) blk.leaf_imps.push_back(imprint(1, "hist-leaf-" + std::to_string(plan.seed) + "-" + std::to_string(q)));
				if (build_block(ctx, blk, true)) { hash = blk.root; level = (uint64_t)blk.root_level; }
				else { free_block(blk); blk.leaf_imps.clear(); }
			}
			// one of the source signatures carries an unknown non-critical element whose length sits on the TLV8 / TLV16 boundary
			static const int extra_lens[] = {-1, 254, 255, 256, 0, 300};
			bw.world.sig_extra_len = i == 0 ? extra_lens[plan.c("sig_extra", 0) % 6] : -1;
			std::string bytes = bw.world.make_signature(hash, level, 700 + i + plan.seed % 89, i != 1, m);
			bw.world.sig_extra_len = -1;
			int res = 0;
			KSI_Signature *s = sdk::parse_sig(ctx, bytes, &res);
			if (!s) { K.fail("C11", "reference-signature-rejected", "setup", "the SDK refuses a signature built by the reference world (0x%x)", res); continue; }
			if (sdk::serialize(s) != bytes) K.fail("C11", "parse-serialize-not-identical", "setup", "a canonical signature does not re-serialize to the bytes it was parsed from");
			add_live(s, bytes, hash, level, i == 1 && !blk.hs.empty());
		}
		// a long-lived context: the network clients have already numbered this many requests (ids above 255 are no longer the
		// context's shared small-integer objects)
		for (int64_t w = 0, n = plan.c("warm", 0); w < n && !live.empty(); w++) {
			KSI_ExtendReq *rq = nullptr; KSI_RequestHandle *rh = nullptr; KSI_Integer *st = nullptr;
			KSI_Integer_new(ctx, live[0].agg, &st);
			if (KSI_createExtendRequest(ctx, st, NULL, &rq) == KSI_OK) {
				CallEnv e; e.behav = B_STATUS_ERR; e.subseed = (uint64_t)w;
				bw.arm(e);
				if (KSI_sendExtendRequest(ctx, rq, &rh) == KSI_OK) KSI_RequestHandle_perform(rh);
				bw.disarm();
			}
			KSI_RequestHandle_free(rh); KSI_ExtendReq_free(rq); KSI_Integer_free(st);
			if (w == 0) K.count("probe.long_lived_context");
		}
		for (int i = 0; i < 3; i++) { ReplyMeta m; bw.world.make_signature(imprint(1, "later" + std::to_string(i)), 0, 900 + i, true, m); }
		for (size_t i = 0; i < plan.ops.size() && !K.failed() && !K.inconclusive; i++) exec(plan.ops[i]);
		for (auto &l : live) KSI_Signature_free(l.sig);
		free_block(blk);
		KSI_CTX_free(ctx);
		rr.hash = K.hash; rr.violations = K.violations; rr.counters = K.counters; rr.sim_ms = K.elapsed_ms;
		rr.inconclusive = K.inconclusive; rr.nontrivial = nontrivial; rr.abstract_states = states;
		if (trace) rr.log = K.log;
		K.trace = false;
		return rr;
	}
};

struct HistoryEngine : run::Engine {
	const char *name() const override { return "history"; }
	run::Plan generate(uint64_t seed, const std::string &property, int tier) override {
		Rng g(mix(seed, 0x415));
		run::Plan p;
		p.engine = name(); p.property = property; p.seed = seed;
		if (property == "C16") {
			int mode = (int)g.below(3) == 0 ? 1 : 0;
			p.cfg["mode"] = mode;
			p.cfg["alg"] = g.chance(1, 5) ? 5 : 1;
			bool with_md = g.chance(1, 2);
			if (mode == 0) {
				p.cfg["maxlevel"] = g.chance(1, 2) ? 0 : (int64_t)g.range(1, 12);
				int n = (int)(g.chance(1, 2) ? g.range(1, 64) : g.range(1, tier ? 300 : 40));
				bool uniform = g.chance(1, 2);
				bool faulty = g.chance(1, 4);
				int lv0 = (int)(g.chance(1, 5) ? g.range(0, 255) : g.range(0, 3));
				bool near_limit = g.chance(1, 5);   // a few leaves just below level 255 among low ones: refusals in the middle of a carry chain
				bool proofs = g.chance(1, 2);
				for (int i = 0; i < n; i++) {
					if (proofs && g.chance(1, 6)) p.ops.push_back({"TB_PROOF", {(int64_t)g.below(64), (int64_t)g.below(8)}});
					int level = near_limit ? (int)(g.chance(1, 4) ? g.range(250, 255) : g.range(0, 2)) : uniform ? lv0 : (int)(g.chance(1, 8) ? g.range(0, 255) : g.range(0, 6));
					p.ops.push_back({"TB_ADD", {level, (int64_t)g.below(50), faulty && g.chance(1, 6) ? (int64_t)g.range(1, 12) : 0, with_md && g.chance(1, 4) ? (int64_t)g.range(1, 15) : 0}});
					if (g.chance(1, 40)) p.ops.push_back({"TB_CLOSE", {}});
				}
				p.ops.push_back({"TB_CLOSE", {}});
				p.cfg["procs"] = g.chance(1, 3) ? (int64_t)g.range(1, 2) : 0;
			} else {
				p.cfg["masking"] = (int64_t)g.below(2);
				p.cfg["aggr_http"] = (int64_t)g.below(2);
				p.cfg["subseed"] = (int64_t)g.below(1 << 30);
				p.cfg["close_before_reset"] = (int64_t)g.below(2);
				int n = (int)g.range(1, tier ? 40 : 12);
				bool with_reset = g.chance(1, 2);
				int reset_at = (int)g.below((uint64_t)n + 1);
				for (int i = 0; i < n; i++) {
					if (with_reset && i == reset_at) p.ops.push_back({"BS_RESET", {}});
					p.ops.push_back({"BS_ADD", {(int64_t)(g.chance(1, 10) ? g.range(0, 255) : g.range(0, 3)), i, with_md && g.chance(1, 3) ? (int64_t)g.range(1, 15) : 0}});
				}
				if (with_reset && reset_at == n) p.ops.push_back({"BS_RESET", {}});
			}
			return p;
		}
		// C11
		p.cfg["pdu_ver"] = g.chance(1, 5) ? 1 : 2;
		p.cfg["aggr_http"] = (int64_t)g.below(2);
		p.cfg["ext_http"] = (int64_t)g.below(2);
		p.cfg["adv"] = g.chance(1, 3) ? 0 : 1;
		p.cfg["faults"] = g.chance(1, 2) ? 0 : 1;
		p.cfg["loglevel"] = g.chance(1, 4) ? g.pickl<int64_t>({5, 5, 6, 7}) : 0;
		p.cfg["epoch_ms"] = (int64_t)g.below(1000);
		p.cfg["warm"] = g.chance(1, 25) ? (int64_t)g.range(250, 258) : 0;
		p.cfg["sig_extra"] = g.chance(1, 2) ? 0 : (int64_t)g.range(1, 5);
		p.cfg["block_leaves"] = (int64_t)g.below(5);
		p.cfg["block_leaf_level"] = g.chance(2, 3) ? 0 : (int64_t)g.range(1, 2);
		int n = tier ? (int)g.range(10, 60) : (int)g.range(4, 24);
		for (int i = 0; i < n; i++) {
			int r = (int)g.below(100);
			run::Op op;
			if (r < 10) { op.k = "PREPEND"; op.a = {(int64_t)g.below(8), (int64_t)g.below(8), (int64_t)g.below(6), (int64_t)g.below(3)}; }
			else if (r < 45) { op.k = "VERIFY"; op.a = {(int64_t)g.below(16), (int64_t)g.below(4), (int64_t)g.below(4), (int64_t)g.below(8), (int64_t)g.below(2), (int64_t)g.below(4), g.chance(1, 2) ? 0 : (int64_t)g.below(B__COUNT), (int64_t)g.below(1 << 30), g.chance(2, 3) ? 0 : (int64_t)g.range(1, 3), (int64_t)g.below(900), (int64_t)g.below(2), g.chance(4, 5) ? 0 : (int64_t)g.range(1, 48)}; }
			else if (r < 55) { op.k = "PARSE"; op.a = {(int64_t)g.below(16)}; }
			else if (r < 63) { op.k = "CLONE"; op.a = {(int64_t)g.below(16)}; }
			else if (r < 75) { op.k = "EXTEND"; op.a = {(int64_t)g.below(16), g.chance(1, 2) ? 0 : (int64_t)g.below(B__COUNT), (int64_t)g.below(1 << 30), g.chance(2, 3) ? 0 : (int64_t)g.range(1, 3)}; }
			else if (r < 85) { op.k = "SIGN"; op.a = {(int64_t)g.below(3), (int64_t)g.below(60), (int64_t)g.below(1 << 30)}; }
			else if (r < 90) { op.k = "LOGLEVEL"; op.a = {(int64_t)g.below(6)}; }
			else if (r < 95) { op.k = "TICK"; op.a = {g.pickl<int64_t>({1000, 30000, 3600000, 40000000})}; }
			else { op.k = "FREE"; op.a = {(int64_t)g.below(16)}; }
			p.ops.push_back(op);
		}
		return p;
	}
	run::RunResult execute(const run::Plan &p, bool trace) override {
		if (p.property == "C16") { TreeSim s(p); return s.run(trace); }
		CtxSim s(p);
		return s.run(trace);
	}
	std::map<std::string, int64_t> neutral_cfg() const override { return {{"pdu_ver", 2}, {"aggr_http", 0}, {"ext_http", 0}, {"loglevel", 0}, {"epoch_ms", 0}, {"alg", 1}}; }
	std::string state_measure() const override { return "C11: (operation kind, number of live signatures) after every op; C16: (accepted leaves, closed) after every op"; }
	std::string nontrivial_rule() const override { return "C11: a history is non-trivial when it contains a verification with a trust-anchor policy or a supplied document hash, an extend or a faulted call; C16: when a leaf was refused, an allocation failed inside an add, or a reset happened; distinct = distinct event-log hash"; }
};

static HistoryEngine g_hist;
struct RegHi { RegHi() { run::register_engine(&g_hist); } } g_reghi;

} // namespace
} // namespace eng
