#include "eng/sdk.h"
#include <cstring>
#include <cstdio>
#include <cstdlib>

namespace sdk {

static int null_logger(void *, int, const char *) { return KSI_OK; }
// a failing log sink (a full or record-bounded log device): the status a logger callback returns must not decide any result
static int refusing_long_logger(void *, int, const char *m) { return m && strlen(m) > 1500 ? KSI_IO_ERROR : KSI_OK; }
static int refusing_all_logger(void *, int, const char *) { return KSI_IO_ERROR; }
static int stderr_logger(void *, int lvl, const char *m) { fprintf(stderr, "SDK[%d] %s\n", lvl, m); return KSI_OK; }

KSI_CTX *new_ctx(int loglevel) {
	KSI_CTX *ctx = nullptr;
	if (KSI_CTX_new(&ctx) != KSI_OK) return nullptr;
	if (getenv("VERIF_SDKLOG")) { KSI_CTX_setLoggerCallback(ctx, stderr_logger, nullptr); loglevel = 5; }
	else KSI_CTX_setLoggerCallback(ctx, loglevel == 6 ? refusing_long_logger : loglevel == 7 ? refusing_all_logger : null_logger, nullptr);
	// levels 6 and 7: debug level with a sink that refuses long records / every record
	KSI_CTX_setLogLevel(ctx, loglevel > 5 ? 5 : loglevel);
	return ctx;
}

std::string imprint_of(const KSI_DataHash *h) {
	const unsigned char *p = nullptr; size_t n = 0;
	if (!h || KSI_DataHash_getImprint(h, &p, &n) != KSI_OK) return std::string();
	return std::string((const char *)p, n);
}

KSI_DataHash *hash_from_imprint(KSI_CTX *ctx, const std::string &imp) {
	KSI_DataHash *h = nullptr;
	if (KSI_DataHash_fromImprint(ctx, (const unsigned char *)imp.data(), imp.size(), &h) != KSI_OK) return nullptr;
	return h;
}

std::string serialize(const KSI_Signature *sig) {
	unsigned char *raw = nullptr; size_t n = 0;
	if (!sig || KSI_Signature_serialize(sig, &raw, &n) != KSI_OK) return std::string();
	std::string s((const char *)raw, n);
	KSI_free(raw);
	return s;
}

KSI_Signature *parse_sig(KSI_CTX *ctx, const std::string &bytes, int *res_out) {
	KSI_Signature *s = nullptr;
	int res = KSI_Signature_parse(ctx, (const unsigned char *)bytes.data(), bytes.size(), &s);
	if (res_out) *res_out = res;
	return res == KSI_OK ? s : nullptr;
}

const char *err_name(int code) { return KSI_getErrorString(code); }

} // namespace sdk
