// `async` engine: plan generator for the plain asynchronous service (C13, C14, C06).
#include "eng/asyncsim.h"
#include "eng/gen.h"

using namespace sim;

namespace eng {

void gen_async_ops(Rng &g, run::Plan &p, int nops, bool ha, int neps) {
	bool adv = p.c("adv", 0) != 0;
	int64_t faults = p.c("faults", 0);
	bool c06 = p.property == "C06";
	bool c14 = p.property == "C14";
	struct W { const char *k; int w; };
	std::vector<W> ws = {{"ADD", 20}, {"RUN", 26}, {"SRVREAD", 10}, {"REPLY", 16}, {"DELIVER", 16}, {"TICK", 6}, {"FREE", 3}, {"READD", 4}};
	if (p.c("recreate", 0)) ws.push_back({"RECREATE", 2});
	if (ha && p.c("repoint", 0)) ws.push_back({"REPOINT", 3});
	if (!ha && p.c("growcache", 0)) ws.push_back({"GROWCACHE", 3});
	if (adv) { ws.push_back({"DUP", 2}); ws.push_back({"PREMATURE", ha ? 0 : 2}); ws.push_back({"PUSHCONF", ha ? 6 : 2}); ws.push_back({"TAMPER", c06 ? 12 : 2}); }
	else if (ha) ws.push_back({"PUSHCONF", 6});
	static const char *fk[] = {"CLOSE", "RESET", "REFUSE", "BLACKHOLE", "DNSFAIL", "SENDBUF", "SENDCUT", "RECVCUT", "CONNDELAY", "JUMP", "HTTPSTATUS"};
	static const int fw[] = {3, 3, 2, 1, 1, 3, 2, 3, 1, 1, 1};
	for (int i = 0; i < 11; i++) if (faults & (1 << i)) ws.push_back({fk[i], c14 && i >= 5 && i <= 7 ? fw[i] * 2 : fw[i]});
	int total = 0;
	for (auto &w : ws) total += w.w;
	// a share of the plans works with reply PDUs around the largest legal size and cuts in their first / last bytes
	bool big = g.chance(1, c14 ? 5 : 25);
	for (int n = 0; n < nops; n++) {
		if (big && g.chance(1, 6)) {
			// one padded round trip: request, padded reply, a cut near one end of the PDU, the rest later
			p.ops.push_back({"ADD", {(int64_t)g.below(9), (int64_t)g.below(50)}});
			p.ops.push_back({"RUN", {}});
			for (int e = 0; e < neps; e++) p.ops.push_back({"SRVREAD", {e}});
			for (int i = 0; i < neps; i++) p.ops.push_back({"REPLY", {(int64_t)g.below(8), 0, (int64_t)g.below(1 << 30), (int64_t)g.range(1, 7)}});
			for (int e = 0; e < neps; e++) p.ops.push_back({"DELIVER", {(int64_t)e, g.pickl<int64_t>({-1, -2, -3, -4, 1, 2, 3, 4, 65535, 65536, 0, 0})}});
			p.ops.push_back({"RUN", {}});
			for (int e = 0; e < neps; e++) p.ops.push_back({"DELIVER", {(int64_t)e, 0}});
			p.ops.push_back({"RUN", {}});
			p.ops.push_back({"RUN", {}});
			n += 6;
			continue;
		}
		// occasionally a whole honest round trip, so that most runs make real progress between faults
		if (g.chance(1, 12)) {
			int k = (int)g.range(1, 3);
			for (int i = 0; i < k; i++) p.ops.push_back({"ADD", {(int64_t)g.below(9), (int64_t)g.below(50)}});
			p.ops.push_back({"RUN", {}});
			for (int e = 0; e < neps; e++) p.ops.push_back({"SRVREAD", {e}});
			for (int i = 0; i < k * neps; i++) p.ops.push_back({"REPLY", {(int64_t)g.below(8), 0, (int64_t)g.below(1 << 30)}});
			for (int e = 0; e < neps * 2; e++) p.ops.push_back({"DELIVER", {(int64_t)g.below(8), 0}});
			for (int i = 0; i < k + 1; i++) p.ops.push_back({"RUN", {}});
			n += 3 * k;
			continue;
		}
		int r = (int)g.below(total);
		const char *k = nullptr;
		for (auto &w : ws) { if (r < w.w) { k = w.k; break; } r -= w.w; }
		std::string kind = k;
		run::Op op; op.k = kind;
		if (kind == "ADD") op.a = {(int64_t)g.below(9), (int64_t)g.below(50)};
		else if (kind == "READD" || kind == "FREE") op.a = {(int64_t)g.below(8)};
		else if (kind == "SRVREAD") op.a = {(int64_t)g.below(neps)};
		else if (kind == "REPLY") op.a = {(int64_t)g.below(8), adv && g.chance(2, 5) ? (int64_t)g.below(ref::B__COUNT) : 0, (int64_t)g.below(1 << 30), big && g.chance(1, 2) ? (int64_t)g.range(1, 7) : 0};
		else if (kind == "DELIVER") {
			int64_t n2 = 0;
			switch (g.below(8)) { case 0: case 1: case 2: case 3: n2 = 0; break; case 4: n2 = (int64_t)g.range(1, 4); break; case 5: n2 = (int64_t)g.range(5, 60); break; case 6: n2 = (int64_t)g.range(61, 600); break; default: n2 = (int64_t)g.pickl<int64_t>({65535, 65537, 65538, 65539, 65540, 131077}); }
			if (big && g.chance(1, 3)) n2 = g.pickl<int64_t>({-1, -2, -3, -4, 1, 2, 3, 65535, 65536});
			op.a = {(int64_t)g.below(8), n2};
		}
		else if (kind == "TICK") op.a = {g.pickl<int64_t>({100, 300, 700, 1000, 1000, 1500, 2500, 5000, 11000})};
		else if (kind == "GROWCACHE") op.a = {(int64_t)g.below(6)};
		else if (kind == "DUP") op.a = {(int64_t)g.below(8)};
		else if (kind == "PREMATURE") op.a = {(int64_t)g.below(8), (int64_t)g.below(1 << 30)};
		else if (kind == "PUSHCONF") op.a = {(int64_t)g.below(neps), (int64_t)g.below(6), (int64_t)g.below(6), (int64_t)g.below(6), 0, (int64_t)g.below(1 << 30)};
		else if (kind == "TAMPER") op.a = {(int64_t)g.below(8), (int64_t)(g.chance(3, 5) ? 0 : g.below(4)), (int64_t)g.below(1 << 20), (int64_t)g.below(256)};
		else if (kind == "CLOSE" || kind == "RESET") op.a = {(int64_t)g.below(neps), (int64_t)g.below(6)};
		else if (kind == "REFUSE" || kind == "BLACKHOLE" || kind == "DNSFAIL") op.a = {(int64_t)g.below(neps), (int64_t)g.below(4)};
		else if (kind == "SENDBUF") op.a = {(int64_t)g.below(neps), g.pickl<int64_t>({1, 2, 7, 10, 50, 100, 150, 1000, 1 << 22, 1 << 22})};
		else if (kind == "SENDCUT") op.a = {(int64_t)g.below(neps), p.c("loginlen") >= 5000 ? g.pickl<int64_t>({0, 997, 4096, 65535, 0}) : g.pickl<int64_t>({0, 1, 2, 3, 5, 64, 0})};
		else if (kind == "RECVCUT") op.a = {(int64_t)g.below(neps), g.pickl<int64_t>({0, 1, 2, 3, 4, 5, 100, 0})};
		else if (kind == "CONNDELAY") op.a = {(int64_t)g.below(neps), g.pickl<int64_t>({0, 500, 3000, 15000})};
		else if (kind == "JUMP") op.a = {g.pickl<int64_t>({-3600, -5, 5, 3600, 86400})};
		else if (kind == "HTTPSTATUS") op.a = {(int64_t)g.below(neps), (int64_t)g.below(6)};
		p.ops.push_back(op);
	}
}

void gen_async_cfg(Rng &g, run::Plan &p, bool ha) {
	const std::string &prop = p.property;
	p.cfg["svc"] = g.chance(1, 4) ? 1 : 0;
	p.cfg["transport"] = prop == "C14" ? 0 : (ha ? (int64_t)g.below(8) : (int64_t)g.below(2));
	p.cfg["cache"] = g.pickl<int64_t>({1, 1, 2, 2, 3, 4, 8, 64});
	p.cfg["maxreq"] = g.pickl<int64_t>({1, 2, 8, 1000, 1000});
	p.cfg["snd_to"] = g.pickl<int64_t>({0, 1, 2, 5, 10, 10});
	p.cfg["rcv_to"] = g.pickl<int64_t>({0, 1, 2, 5, 10, 10});
	p.cfg["con_to"] = g.pickl<int64_t>({0, 1, 2, 5, 10, 10});
	p.cfg["pdu_ver"] = g.chance(1, 5) ? 1 : 2;
	p.cfg["mac_alg"] = g.pickl<int64_t>({1, 1, 1, 5, 4});
	p.cfg["keylen"] = g.pickl<int64_t>({1, 4, 8, 32, 63, 64, 65, 128, 129, 200});
	p.cfg["loginlen"] = prop == "C14" ? g.pickl<int64_t>({1, 6, 40, 300, 5000, 60000}) : g.pickl<int64_t>({1, 6, 6, 40, 300});
	p.cfg["conf_cb"] = (int64_t)g.below(2);
	p.cfg["adv"] = g.chance(1, 3) ? 0 : 1;
	p.cfg["faults"] = g.chance(1, 4) ? 0 : (int64_t)g.below(1 << 11);
	p.cfg["epoch"] = (int64_t)g.below(6);
	p.cfg["epoch_ms"] = (int64_t)g.below(1000);
	p.cfg["loglevel"] = g.chance(1, 6) ? g.pickl<int64_t>({5, 5, 6, 7}) : 0;
	p.cfg["quiesce"] = 1;
	// the application replaces the service object in the middle of the run (requests outstanding are abandoned)
	// (TCP endpoints only: freeing an HTTP service with transfers in flight leaves their easy handles attached to the context-wide
	// curl multi handle with dangling user pointers - see DESIGN.md 10.6 - which is outside the properties studied here)
	p.cfg["recreate"] = (g.chance(1, 5) && p.c("transport") == 0) ? 1 : 0;
	p.cfg["growcache"] = (!ha && g.chance(1, 5)) ? 1 : 0;
	// configuration requests among the submissions (plain service, PDU version 2)
	p.cfg["conf_req"] = (!ha && p.c("pdu_ver") == 2 && g.chance(1, 4)) ? 1 : 0;
	if (ha) p.cfg["eps"] = (int64_t)g.range(1, 3);
	if (prop == "C06") { p.cfg["adv"] = 1; }
	// the asynchronous clauses of the signing / extending properties: adversarial replies against the signing / extending service
	if (prop == "C07") { p.cfg["adv"] = 1; p.cfg["svc"] = 0; }
	if (prop == "C08") { p.cfg["adv"] = 1; p.cfg["svc"] = 1; }
	if (prop == "C14") {
		// only chunking-type disturbances in a third of the plans (would-block fails nothing), the rest adds connection loss
		int64_t chunk = (1 << 5) | (1 << 6) | (1 << 7);
		int64_t loss = (1 << 0) | (1 << 1) | (1 << 2) | (1 << 3) | (1 << 8);
		p.cfg["faults"] = g.chance(1, 3) ? chunk : (chunk | ((int64_t)g.below(1 << 11) & loss));
		if (g.chance(1, 2)) p.cfg["adv"] = 0;
	}
}

struct AsyncEngine : run::Engine {
	const char *name() const override { return "async"; }
	run::Plan generate(uint64_t seed, const std::string &property, int tier) override {
		Rng g(mix(seed, 0xa51c));
		run::Plan p;
		p.engine = name(); p.property = property; p.seed = seed;
		gen_async_cfg(g, p, false);
		int nops = tier ? (int)g.range(40, 400) : (int)g.range(15, 60);
		if (tier && g.chance(1, 10)) {
			// long wrap-around plan: tiny cache, hundreds of round trips so that the 8-bit id generation wraps
			p.cfg["cache"] = g.pickl<int64_t>({1, 1, 2});
			p.cfg["maxreq"] = 1000;
			p.cfg["faults"] = 0;
			p.cfg["svc"] = 0;
			int rounds = (int)g.range(260, 560);
			for (int i = 0; i < rounds; i++) {
				p.ops.push_back({"ADD", {0, 0}});
				p.ops.push_back({"RUN", {}});
				p.ops.push_back({"SRVREAD", {0}});
				int b = p.c("adv") && g.chance(1, 12) ? ref::B_STALE_GEN : 0;
				p.ops.push_back({"REPLY", {0, b, (int64_t)g.below(1 << 30)}});
				if (b) { p.ops.push_back({"SRVREAD", {0}}); }
				p.ops.push_back({"DELIVER", {0, 0}});
				p.ops.push_back({"RUN", {}});
				if (g.chance(1, 3)) p.ops.push_back({"FREE", {0}});
				if (p.c("adv") && g.chance(1, 20)) p.ops.push_back({"DUP", {(int64_t)g.below(64)}});
			}
			p.cfg["maxops"] = (int64_t)p.ops.size() + 10;
			return p;
		}
		if (!tier && property != "C14" && g.chance(1, 30)) {
			// the quick tier's short wrap-around plan: cache of one or two, 36..90 honest round trips, now and then an old reply again
			p.cfg["cache"] = g.pickl<int64_t>({1, 1, 2});
			p.cfg["maxreq"] = 1000; p.cfg["faults"] = 0; p.cfg["svc"] = 0; p.cfg["conf_req"] = 0; p.cfg["growcache"] = 0; p.cfg["recreate"] = 0;
			int rounds = (int)g.range(36, 90);
			for (int i = 0; i < rounds; i++) {
				p.ops.push_back({"ADD", {0, 0}});
				p.ops.push_back({"RUN", {}});
				p.ops.push_back({"SRVREAD", {0}});
				p.ops.push_back({"REPLY", {0, 0, (int64_t)g.below(1 << 30)}});
				p.ops.push_back({"DELIVER", {0, 0}});
				p.ops.push_back({"RUN", {}});
				p.ops.push_back({"FREE", {0}});
				if (p.c("adv") && g.chance(1, 10)) p.ops.push_back({"DUP", {(int64_t)g.below(64)}});
			}
			p.cfg["maxops"] = (int64_t)p.ops.size() + 10;
			return p;
		}
		gen_async_ops(g, p, nops, false, 1);
		p.cfg["cred_in_uri"] = g.chance(1, 5) ? 1 : 0;
		return p;
	}
	run::RunResult execute(const run::Plan &p, bool trace) override {
		AsyncSim s(p, false);
		return s.run(trace);
	}
	std::map<std::string, int64_t> neutral_cfg() const override {
		return {{"svc", 0}, {"transport", 0}, {"cache", 8}, {"maxreq", 1000}, {"snd_to", 10}, {"rcv_to", 10}, {"con_to", 10}, {"pdu_ver", 2}, {"mac_alg", 1},
		        {"keylen", 8}, {"loginlen", 6}, {"conf_cb", 0}, {"epoch", 0}, {"epoch_ms", 0}, {"loglevel", 0}};
	}
	std::string state_measure() const override { return "(multiset of handle states, connection state, reassembly fill bucket, pending server requests, cache occupancy, id generation mod 4) after every op"; }
	std::string nontrivial_rule() const override { return "a run is non-trivial when at least one injected fault or adversarial server action fired while at least one accepted request was outstanding; distinct = distinct event-log hash"; }
};

static AsyncEngine g_async;
struct RegA { RegA() { run::register_engine(&g_async); } } g_rega;

} // namespace eng
