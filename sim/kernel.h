// SimKernel: seeded PRNG, simulated wall clock, global event sequence, event log + rolling hash,
// counters (faults fired, reach probes) and the oracle-failure channel.
#pragma once
#include <cstdint>
#include <cstdarg>
#include <string>
#include <vector>
#include <map>
#include <functional>

namespace sim {

inline uint64_t splitmix64(uint64_t &x) {
	uint64_t z = (x += 0x9e3779b97f4a7c15ULL);
	z = (z ^ (z >> 30)) * 0xbf58476d1ce4e5b9ULL;
	z = (z ^ (z >> 27)) * 0x94d049bb133111ebULL;
	return z ^ (z >> 31);
}

inline uint64_t mix(uint64_t a, uint64_t b) {
	uint64_t x = a * 0x9e3779b97f4a7c15ULL + b + 0x7f4a7c15ULL;
	return splitmix64(x);
}

// xoshiro256**
struct Rng {
	uint64_t s[4];
	explicit Rng(uint64_t seed = 1) { reseed(seed); }
	void reseed(uint64_t seed) { uint64_t x = seed; for (auto &v : s) v = splitmix64(x); }
	static uint64_t rotl(uint64_t x, int k) { return (x << k) | (x >> (64 - k)); }
	uint64_t next() {
		uint64_t r = rotl(s[1] * 5, 7) * 9, t = s[1] << 17;
		s[2] ^= s[0]; s[3] ^= s[1]; s[1] ^= s[2]; s[0] ^= s[3]; s[2] ^= t; s[3] = rotl(s[3], 45);
		return r;
	}
	uint64_t below(uint64_t n) { return n ? next() % n : 0; }
	int64_t range(int64_t lo, int64_t hi) { return lo + (int64_t)below((uint64_t)(hi - lo + 1)); }
	bool chance(unsigned num, unsigned den) { return below(den) < num; }
	template <class T> const T &pick(const std::vector<T> &v) { return v[below(v.size())]; }
	template <class T> T pickl(std::initializer_list<T> l) { std::vector<T> v(l); return v[below(v.size())]; }
};

struct Violation {
	std::string property;   // e.g. "C13"
	std::string oracle_property; // property the oracle was written for, when an engine reports it under another (alias)
	std::string rule;       // oracle rule, e.g. "error-without-cause"
	std::string key;        // finer key for known-findings matching
	std::string detail;
	uint64_t seq = 0;
};

struct Kernel {
	std::vector<int64_t> seq_ms;   // simulated time of every event, indexed by its sequence number
	int64_t ms_at(uint64_t s) const { return s < seq_ms.size() ? seq_ms[s] : now_ms; }
	// an engine that drives one service through another (HA over async) reports the inner service's exactly-once / liveness
	// oracles under its own property: alias_from -> alias_to (known findings still match on the original id)
	std::string alias_from, alias_to;
	// ---- clock: simulated wall clock in ms since the Unix epoch
	int64_t now_ms = 0;
	int64_t elapsed_ms = 0; // simulated time covered by this run (sum of forward advances)
	// ---- global event sequence
	uint64_t seq = 0;
	// ---- event log
	uint64_t hash = 0xcbf29ce484222325ULL;
	bool trace = false;
	std::vector<std::string> log;
	// ---- counters
	std::map<std::string, uint64_t> counters;
	// ---- oracle failures of this run
	std::vector<Violation> violations;
	// ---- step caps
	uint64_t syscalls = 0;          // simulated syscalls in this run
	uint64_t syscalls_in_call = 0;  // since the last API call began
	uint64_t noprogress_in_call = 0;
	uint64_t bytes_in_call = 0;     // bytes moved by simulated send/recv since the last API call began
	bool inconclusive = false;      // harness-side cap exceeded
	std::string inconclusive_why;

	void reset(int64_t epoch_ms);
	uint64_t ev(const char *fmt, ...) __attribute__((format(printf, 2, 3)));
	void count(const char *name, uint64_t n = 1) { counters[name] += n; }
	void advance(int64_t ms);        // forward tick
	void jump(int64_t ms);           // clock jump (forward or backward), not counted as elapsed
	void fail(const char *prop, const char *rule, const std::string &key, const char *fmt, ...) __attribute__((format(printf, 5, 6)));
	void api_begin(const char *name);
	bool failed() const { return !violations.empty(); }
};

extern Kernel K;

std::string hexs(const void *p, size_t n, size_t max = 48);

} // namespace sim
