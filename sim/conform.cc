// SimNet conformance self-test: the same scripted client / server steps are executed once on real non-blocking loopback
// sockets (through the __real_* libc entry points the --wrap seam leaves reachable) and once on SimNet; what the client
// observes - the class of every return value and the IN/OUT/ERR/HUP bits of every poll - must agree. This is a self-test of
// the model (run by `ksisim selftest simnet`), never part of a property check: it uses the real kernel and short real waits.
#include "sim/simnet.h"
#include "sim/kernel.h"
#include <cerrno>
#include <cstring>
#include <string>
#include <vector>
#include <arpa/inet.h>
#include <netinet/in.h>
#include <poll.h>
#include <sys/ioctl.h>
#include <sys/socket.h>
#include <unistd.h>

extern "C" {
int __real_socket(int, int, int);
int __real_ioctl(int, unsigned long, ...);
int __real_connect(int, const struct sockaddr *, socklen_t);
int __real_poll(struct pollfd *, nfds_t, int);
ssize_t __real_recv(int, void *, size_t, int);
ssize_t __real_send(int, const void *, size_t, int);
int __real_close(int);
int __wrap_socket(int, int, int);
int __wrap_ioctl(int, unsigned long, ...);
int __wrap_connect(int, const struct sockaddr *, socklen_t);
int __wrap_poll(struct pollfd *, nfds_t, int);
ssize_t __wrap_recv(int, void *, size_t, int);
ssize_t __wrap_send(int, const void *, size_t, int);
int __wrap_close(int);
}

namespace sim {
namespace {

enum StepKind {
	C_CONNECT,      // non-blocking connect
	C_POLL,         // poll(IN|OUT), report IN/OUT/ERR/HUP
	C_SEND,         // send a bytes
	C_RECV,         // recv up to a bytes
	C_FILL,         // send 4 KiB blocks until the call would block (report only that it ended with would-block)
	C_CLOSE,
	S_ACCEPT,       // the server accepts the connection (no-op in the model: the handshake is the connect delay)
	S_WRITE,        // the server writes a bytes
	S_READALL,      // the server reads everything the client sent
	S_CLOSE,        // orderly close
	S_RESET,        // abortive close (SO_LINGER 0)
};
struct Step { StepKind k; size_t a; };
struct Scenario { const char *name; bool listener; std::vector<Step> steps; };

std::string cls(ssize_t r) {
	if (r >= 0) return std::to_string(r);
	if (errno == EAGAIN || errno == EWOULDBLOCK) return "would-block";
	if (errno == EINPROGRESS) return "in-progress";
	return "error"; // the SDK treats every other errno alike
}
std::string bits(short re) {
	std::string s;
	if (re & POLLIN) s += "I";
	if (re & POLLOUT) s += "O";
	if (re & POLLERR) s += "E";
	if (re & POLLHUP) s += "H";
	return s.empty() ? "-" : s;
}

struct Backend {
	virtual ~Backend() {}
	virtual void begin(bool listener) = 0;
	virtual std::string step(const Step &s) = 0;
	virtual void end() = 0;
};

struct RealBackend : Backend {
	int lfd = -1, cfd = -1, sfd = -1;
	struct sockaddr_in addr;
	static void settle() { usleep(15000); }
	void begin(bool listener) override {
		lfd = __real_socket(AF_INET, SOCK_STREAM, 0);
		memset(&addr, 0, sizeof addr);
		addr.sin_family = AF_INET; addr.sin_addr.s_addr = htonl(INADDR_LOOPBACK); addr.sin_port = 0;
		bind(lfd, (struct sockaddr *)&addr, sizeof addr);
		socklen_t l = sizeof addr;
		getsockname(lfd, (struct sockaddr *)&addr, &l);
		if (listener) listen(lfd, 4);
		else { __real_close(lfd); lfd = -1; } // the port is free again: connects are refused
		cfd = sfd = -1;
	}
	std::string step(const Step &s) override {
		char buf[4096];
		memset(buf, 'x', sizeof buf);
		switch (s.k) {
			case C_CONNECT: {
				cfd = __real_socket(AF_INET, SOCK_STREAM, 0);
				int one = 1; __real_ioctl(cfd, FIONBIO, &one);
				int r = __real_connect(cfd, (struct sockaddr *)&addr, sizeof addr);
				std::string o = r == 0 ? "0" : cls(-1);
				settle();
				// on loopback the handshake may complete inside connect(); the SDK treats 0 and in-progress alike
				return o == "0" ? "in-progress" : o;
			}
			case C_POLL: { struct pollfd p = {cfd, POLLIN | POLLOUT, 0}; __real_poll(&p, 1, 0); return bits(p.revents); }
			case C_SEND: { ssize_t r = __real_send(cfd, buf, s.a, MSG_NOSIGNAL); std::string o = cls(r); settle(); return o; }
			case C_RECV: { std::vector<char> b(s.a ? s.a : 1); ssize_t r = __real_recv(cfd, b.data(), s.a, 0); return cls(r); }
			case C_FILL: {
				for (int i = 0; i < 100000; i++) { ssize_t r = __real_send(cfd, buf, sizeof buf, MSG_NOSIGNAL); if (r < 0) return cls(r); }
				return "never-blocked";
			}
			case C_CLOSE: __real_close(cfd); cfd = -1; return "closed";
			case S_ACCEPT: { sfd = accept(lfd, nullptr, nullptr); settle(); return sfd >= 0 ? "accepted" : "accept-failed"; }
			case S_WRITE: { std::vector<char> b(s.a, 'y'); ssize_t r = __real_send(sfd, b.data(), s.a, MSG_NOSIGNAL); settle(); return r == (ssize_t)s.a ? "written" : "short-write"; }
			case S_READALL: {
				int one = 1; __real_ioctl(sfd, FIONBIO, &one);
				for (int idle = 0; idle < 3;) { ssize_t r = __real_recv(sfd, buf, sizeof buf, 0); if (r > 0) idle = 0; else { idle++; usleep(5000); } }
				settle();
				return "read";
			}
			case S_CLOSE: __real_close(sfd); sfd = -1; settle(); return "srv-closed";
			case S_RESET: { struct linger lg = {1, 0}; setsockopt(sfd, SOL_SOCKET, SO_LINGER, &lg, sizeof lg); __real_close(sfd); sfd = -1; settle(); return "srv-reset"; }
		}
		return "?";
	}
	void end() override {
		if (cfd >= 0) __real_close(cfd);
		if (sfd >= 0) __real_close(sfd);
		if (lfd >= 0) __real_close(lfd);
	}
};

struct SimBackend : Backend {
	int fd = -1, ep = -1;
	void begin(bool listener) override {
		K.reset(1600000000000LL);
		N.reset();
		ep = N.add_endpoint("conform.sim", 1);
		if (!listener) N.eps[(size_t)ep].refuse_next = 1;
		N.eps[(size_t)ep].sndbuf_cap = 1 << 16;
		fd = -1;
	}
	Conn &c() { return *N.by_fd(fd); }
	std::string step(const Step &s) override {
		char buf[4096];
		memset(buf, 'x', sizeof buf);
		switch (s.k) {
			case C_CONNECT: {
				fd = __wrap_socket(AF_INET, SOCK_STREAM, 0);
				int one = 1; __wrap_ioctl(fd, FIONBIO, &one);
				struct sockaddr_in a; memset(&a, 0, sizeof a);
				a.sin_family = AF_INET; a.sin_addr.s_addr = htonl(0x0a000000u + (uint32_t)ep); a.sin_port = htons(1);
				int r = __wrap_connect(fd, (struct sockaddr *)&a, sizeof a);
				return r == 0 ? "in-progress" : cls(-1);
			}
			case C_POLL: { struct pollfd p = {fd, POLLIN | POLLOUT, 0}; __wrap_poll(&p, 1, 0); return bits(p.revents); }
			case C_SEND: return cls(__wrap_send(fd, buf, s.a, 0));
			case C_RECV: { static char rb[2 * (0xffff + 4)]; return cls(__wrap_recv(fd, rb, s.a, 0)); } // one reassembly buffer, as the model's discipline oracle expects
			case C_FILL: {
				for (int i = 0; i < 100000; i++) { ssize_t r = __wrap_send(fd, buf, sizeof buf, 0); if (r < 0) return cls(r); }
				return "never-blocked";
			}
			case C_CLOSE: __wrap_close(fd); return "closed";
			case S_ACCEPT: return "accepted";
			case S_WRITE: N.srv_write(c(), std::string(s.a, 'y')); N.deliver(c(), 0); return "written";
			case S_READALL: N.srv_take(c(), (size_t)1 << 30); return "read";
			case S_CLOSE: N.srv_close(c()); N.deliver(c(), 0); return "srv-closed";
			case S_RESET: N.srv_reset(c()); return "srv-reset";
		}
		return "?";
	}
	void end() override {}
};

const std::vector<Scenario> &scenarios() {
	static const std::vector<Scenario> v = {
		{"request-reply-close", true, {{C_CONNECT, 0}, {S_ACCEPT, 0}, {C_POLL, 0}, {C_RECV, 100}, {C_SEND, 10}, {S_READALL, 0}, {S_WRITE, 5}, {C_POLL, 0}, {C_RECV, 100}, {C_RECV, 100},
			{S_CLOSE, 0}, {C_POLL, 0}, {C_RECV, 100}, {C_RECV, 100}, {C_CLOSE, 0}}},
		{"segmented-reply", true, {{C_CONNECT, 0}, {S_ACCEPT, 0}, {S_WRITE, 3}, {C_RECV, 2}, {C_RECV, 100}, {C_RECV, 100}, {S_WRITE, 4}, {C_POLL, 0}, {C_RECV, 2}, {C_RECV, 2}, {C_RECV, 2}, {C_CLOSE, 0}}},
		{"connection-refused", false, {{C_CONNECT, 0}, {C_POLL, 0}, {C_RECV, 10}, {C_CLOSE, 0}}},
		{"connection-refused-send", false, {{C_CONNECT, 0}, {C_POLL, 0}, {C_SEND, 10}, {C_CLOSE, 0}}},
		{"reset-with-unread-data", true, {{C_CONNECT, 0}, {S_ACCEPT, 0}, {S_WRITE, 6}, {S_RESET, 0}, {C_POLL, 0}, {C_RECV, 4}, {C_RECV, 100}, {C_RECV, 100}, {C_RECV, 100}, {C_CLOSE, 0}}},
		{"reset-then-send", true, {{C_CONNECT, 0}, {S_ACCEPT, 0}, {S_RESET, 0}, {C_POLL, 0}, {C_RECV, 100}, {C_SEND, 10}, {C_RECV, 100}, {C_CLOSE, 0}}},
		{"fin-with-unread-data", true, {{C_CONNECT, 0}, {S_ACCEPT, 0}, {S_WRITE, 5}, {S_CLOSE, 0}, {C_POLL, 0}, {C_RECV, 3}, {C_POLL, 0}, {C_RECV, 100}, {C_RECV, 100}, {C_RECV, 100}, {C_CLOSE, 0}}},
		{"send-buffer-full", true, {{C_CONNECT, 0}, {S_ACCEPT, 0}, {C_FILL, 0}, {C_POLL, 0}, {C_SEND, 4096}, {S_READALL, 0}, {C_POLL, 0}, {C_SEND, 10}, {C_CLOSE, 0}}},
		{"early-io", true, {{C_CONNECT, 0}, {S_ACCEPT, 0}, {C_RECV, 10}, {C_POLL, 0}, {C_CLOSE, 0}}},
	};
	return v;
}

} // namespace

bool selftest_simnet(std::string &report) {
	bool ok = true;
	size_t compared = 0;
	for (auto &sc : scenarios()) {
		RealBackend rb; SimBackend sb;
		std::vector<std::string> ro, so;
		rb.begin(sc.listener);
		for (auto &st : sc.steps) ro.push_back(rb.step(st));
		rb.end();
		sb.begin(sc.listener);
		for (auto &st : sc.steps) so.push_back(sb.step(st));
		sb.end();
		for (size_t i = 0; i < sc.steps.size(); i++) {
			compared++;
			if (ro[i] != so[i]) {
				ok = false;
				report += std::string("  scenario ") + sc.name + " step " + std::to_string(i) + ": loopback gives '" + ro[i] + "', SimNet gives '" + so[i] + "'\n";
			}
		}
	}
	N.reset();
	report += "  " + std::to_string(scenarios().size()) + " scenarios, " + std::to_string(compared) + " observations compared\n";
	return ok;
}

} // namespace sim
