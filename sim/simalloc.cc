#include "sim/simalloc.h"
#include "sim/kernel.h"
#include <cstdlib>
#include <cstring>
#include <cstdio>
#include <execinfo.h>
extern "C" void __sanitizer_symbolize_pc(void *pc, const char *fmt, char *out_buf, size_t out_buf_size) __attribute__((weak));

namespace sim { Alloc A; }
using namespace sim;

static void note_stack(void *p) {
	if (!A.trace || !p) return;
	void *pcs[14];
	int n = backtrace(pcs, 14);
	A.stacks[p].assign(pcs, pcs + (n > 0 ? n : 0));
}

namespace sim {
std::string alloc_site(void *p) {
	auto it = A.stacks.find(p);
	if (it == A.stacks.end()) return "?";
	std::string chain;
	int shown = 0;
	for (void *pc : it->second) {
		char buf[512] = "";
		if (__sanitizer_symbolize_pc) __sanitizer_symbolize_pc((char *)pc - 1, "%f", buf, sizeof buf);
		std::string f = buf;
		if (f.empty() || f == "??" ) continue;
		if (f.find("ksisim_") != std::string::npos || f == "KSI_malloc" || f == "KSI_calloc" || f == "note_stack" || f.find("backtrace") != std::string::npos) continue;
		if (f.find("eng::") != std::string::npos || f.find("run::") != std::string::npos || f == "main") break;
		if (shown) chain += "<";
		chain += f;
		if (++shown >= (getenv("VERIF_SITE_DEPTH") ? atoi(getenv("VERIF_SITE_DEPTH")) : 3)) break;
	}
	return chain.empty() ? "?" : chain;
}
}

static bool should_fail() {
	A.count++;
	if (!A.armed) return false;
	if ((A.fail_from && A.count >= A.fail_from) || A.fail_at.count(A.count)) {
		A.fired++;
		K.count("fault.alloc_fail");
		if (A.trace) {
			void *pcs[12]; int n = backtrace(pcs, 12);
			std::string chain, chain3; int shown = 0;
			for (int i = 1; i < n && shown < 3; i++) {
				char buf[256] = ""; if (__sanitizer_symbolize_pc) __sanitizer_symbolize_pc((char *)pcs[i] - 1, "%f", buf, sizeof buf);
				std::string f = buf;
				if (f.empty() || f == "??" || f.find("ksisim_") != std::string::npos || f == "KSI_malloc" || f == "KSI_calloc" || f == "should_fail") continue;
				if (f.find("eng::") != std::string::npos) break;
				if (shown) chain3 += "<";
				chain3 += f;
				if (shown < 2) chain = chain3;
				shown++;
			}
			A.last_fail_site = chain;
			bool seen = false;
			for (auto &x : A.fail_sites) if (x == chain3) seen = true;
			if (!seen) A.fail_sites.push_back(chain3);
		}
		if (getenv("VERIF_FAILSITE")) {
			void *pcs[16]; int n = backtrace(pcs, 16);
			fprintf(stderr, "FAILSITE alloc #%llu:", (unsigned long long)A.count);
			for (int i = 1; i < n; i++) { char buf[256] = ""; if (__sanitizer_symbolize_pc) __sanitizer_symbolize_pc((char *)pcs[i] - 1, "%f", buf, sizeof buf); fprintf(stderr, " < %s", buf); }
			fprintf(stderr, "\n");
		}
		return true;
	}
	return false;
}

extern "C" {

void *ksisim_malloc(size_t n) {
	if (should_fail()) return NULL;
	void *p = malloc(n);
	if (p) { A.live[p] = ++A.serial; note_stack(p); }
	return p;
}

void *ksisim_calloc(size_t a, size_t b) {
	if (should_fail()) return NULL;
	void *p = calloc(a, b);
	if (p) { A.live[p] = ++A.serial; note_stack(p); }
	return p;
}

void ksisim_free(void *p) {
	if (p == NULL) return;
	auto it = A.live.find(p);
	if (it == A.live.end()) {
		A.bad_free++;
		// let ASan classify it (double free / invalid free) on the real free below
	} else {
		A.live.erase(it);
		if (A.trace) A.stacks.erase(p);
	}
	free(p);
}

}
