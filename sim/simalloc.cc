#include "sim/simalloc.h"
#include "sim/kernel.h"
#include <cstdlib>

namespace sim { Alloc A; }
using namespace sim;

static bool should_fail() {
	A.count++;
	if (!A.armed) return false;
	if ((A.fail_from && A.count >= A.fail_from) || A.fail_at.count(A.count)) {
		A.fired++;
		K.count("fault.alloc_fail");
		return true;
	}
	return false;
}

extern "C" {

void *ksisim_malloc(size_t n) {
	if (should_fail()) return NULL;
	void *p = malloc(n);
	if (p) A.live[p] = ++A.serial;
	return p;
}

void *ksisim_calloc(size_t a, size_t b) {
	if (should_fail()) return NULL;
	void *p = calloc(a, b);
	if (p) A.live[p] = ++A.serial;
	return p;
}

void ksisim_free(void *p) {
	if (p == NULL) return;
	auto it = A.live.find(p);
	if (it == A.live.end()) {
		A.bad_free++;
		// let ASan classify it (double free / invalid free) on the real free below
	} else {
		A.live.erase(it);
	}
	free(p);
}

}
