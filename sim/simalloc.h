// SimAlloc: the single allocation funnel of libksi (KSI_malloc/KSI_calloc/KSI_free in base.c, compiled with
// -Dmalloc=ksisim_malloc ...) with counting, n-th-allocation failure and live-set accounting.
#pragma once
#include <cstdint>
#include <cstddef>
#include <set>
#include <unordered_map>
#include <vector>
#include <string>

namespace sim {

struct Alloc {
	uint64_t count = 0;            // allocations requested since reset_counter()
	bool armed = false;
	std::set<uint64_t> fail_at;    // 1-based indices that fail while armed
	uint64_t fail_from = 0;        // if non-zero: every index >= fail_from fails while armed
	uint64_t fired = 0;            // failures actually injected
	std::unordered_map<void *, uint64_t> live; // pointer -> global serial
	uint64_t serial = 0;
	uint64_t bad_free = 0;         // frees of pointers not in the live set (double free / foreign pointer)
	bool trace = false;            // record the call stack of every allocation (leak attribution)
	std::unordered_map<void *, std::vector<void *>> stacks;
	std::string last_fail_site;     // innermost libksi frames of the allocation that was made to fail last
	std::vector<std::string> fail_sites; // three innermost libksi frames of every allocation that was made to fail (in order, no repeats)
	void reset_all() { count = 0; armed = false; fail_at.clear(); fail_from = 0; fired = 0; live.clear(); serial = 0; bad_free = 0; stacks.clear(); last_fail_site.clear(); fail_sites.clear(); }
	void reset_counter() { count = 0; fired = 0; }
};

extern Alloc A;

// function name of the innermost libksi frame (not the allocation wrappers) that allocated p; "?" if unknown
std::string alloc_site(void *p);

} // namespace sim
