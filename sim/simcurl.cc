#include "sim/simcurl.h"
#include "sim/simnet.h"
#include "sim/kernel.h"
#include <cstring>
#include <cstdlib>
#include <cstdarg>
#include <deque>
#include <algorithm>

namespace sim {

Curl C;

struct Easy {
	uint32_t magic = 0xC0DE1EA5;
	std::string url;
	bool has_url = false;
	const char *postfields = nullptr;
	std::string post_copy;     // CURLOPT_COPYPOSTFIELDS
	bool has_copy = false;
	long postsize = -1;
	long post = 0;
	curl_write_callback writefn = nullptr;
	void *writedata = nullptr;
	void *priv = nullptr;
	char *errbuf = nullptr;
	long connect_timeout = 0;
	long timeout = 0;
	struct curl_slist *headers = nullptr;
	Multi *multi = nullptr;
	Xfer *xfer = nullptr;      // current / last transfer
	long last_http_code = 0;
};

struct Multi {
	uint32_t magic = 0xC0DE3171;
	std::vector<Easy *> easies;
	std::deque<CURLMsg> msgs;
	CURLMsg cur;               // storage for the message handed out by info_read
};

void Curl::reset() {
	xfers.clear();
	urls_seen.clear();
	on_request = nullptr;
	on_block = nullptr;
	write_cut = 0;
	live_easy = live_multi = 0;
}

void Curl::respond(Xfer &x, long http_code, const std::string &body) {
	if (x.st != Xfer::SENT || x.responded || x.srv_closed || x.srv_reset) return;
	x.responded = true;
	x.http_code = http_code;
	x.resp_body = body;
	K.ev("http x%d respond %ld body=%zu", x.idx, http_code, body.size());
}

size_t Curl::deliver(Xfer &x, size_t n) {
	if (x.st != Xfer::SENT || !x.responded || x.srv_reset) return 0;
	size_t fl = x.inflight();
	if (n == 0 || n > fl) n = fl;
	x.arrived += n;
	uint64_t s = K.ev("http x%d arrive +%zu (=%zu/%zu)", x.idx, n, x.arrived, x.resp_body.size());
	if (x.arrived == x.resp_body.size()) x.last_arrive_seq = s;
	return n;
}

void Curl::srv_close(Xfer &x) {
	if (x.st != Xfer::SENT && x.st != Xfer::CONNECTING) return;
	if (x.srv_closed || x.srv_reset) return;
	x.srv_closed = true;
	K.ev("http x%d srv-close", x.idx);
}

void Curl::srv_reset(Xfer &x) {
	if (x.st != Xfer::SENT && x.st != Xfer::CONNECTING) return;
	if (x.srv_reset) return;
	x.srv_reset = true;
	K.ev("http x%d srv-reset", x.idx);
}

static void set_err(Easy *e, const char *msg) {
	if (e && e->errbuf) { strncpy(e->errbuf, msg, CURL_ERROR_SIZE - 1); e->errbuf[CURL_ERROR_SIZE - 1] = 0; }
}

static void finish(Xfer &x, CURLcode rc, const char *msg) {
	if (x.st == Xfer::DONE || x.st == Xfer::REMOVED) return;
	x.st = Xfer::DONE;
	x.result = rc;
	x.done_seq = K.ev("http x%d done rc=%d http=%ld", x.idx, (int)rc, x.http_code);
	if (rc != CURLE_OK) set_err(x.easy, msg);
	if (x.easy) x.easy->last_http_code = x.http_code;
}

static int find_ep(const std::string &url, std::string &path) {
	// scheme://host[:port][/path...]
	size_t p = url.find("://");
	if (p == std::string::npos) return -1;
	std::string scheme = url.substr(0, p);
	std::string rest = url.substr(p + 3);
	size_t sl = rest.find_first_of("/?#");
	std::string auth = sl == std::string::npos ? rest : rest.substr(0, sl);
	path = sl == std::string::npos ? "" : rest.substr(sl);
	size_t at = auth.rfind('@');
	if (at != std::string::npos) auth = auth.substr(at + 1);
	std::string host = auth;
	unsigned port = scheme == "https" ? 443 : 80;
	size_t c = auth.rfind(':');
	if (c != std::string::npos && auth.find(']') == std::string::npos) {
		host = auth.substr(0, c);
		port = (unsigned)atoi(auth.c_str() + c + 1);
	}
	for (size_t i = 0; i < N.eps.size(); i++) if (N.eps[i].host == host && N.eps[i].port == port) return (int)i;
	return -1;
}

static Xfer *start_xfer(Easy *e, bool blocking) {
	auto x = std::make_unique<Xfer>();
	x->idx = (int)C.xfers.size();
	x->easy = e;
	x->blocking = blocking;
	x->url = e->url;
	x->is_post = e->post != 0 || e->postfields != nullptr || e->has_copy;
	x->added_seq = K.ev("http x%d add url=%s", x->idx, e->url.c_str());
	x->added_ms = K.now_ms;
	if (e->has_copy) x->body_at_add = e->post_copy;
	else if (e->postfields) x->body_at_add.assign(e->postfields, e->postsize >= 0 ? (size_t)e->postsize : strlen(e->postfields));
	Xfer *r = x.get();
	C.xfers.push_back(std::move(x));
	e->xfer = r;
	return r;
}

// advance one transfer as far as the (simulated) network allows; true if anything happened
static bool step(Xfer &x) {
	Easy *e = x.easy;
	if (!e) return false;
	bool progress = false;
	if (x.st == Xfer::QUEUED) {
		progress = true;
		x.started_ms = K.now_ms;
		N.resolved.push_back("curl:" + x.url);
		x.ep = find_ep(x.url, x.path);
		if (x.ep < 0) { K.count("net.dns_unknown"); finish(x, CURLE_COULDNT_RESOLVE_HOST, "Could not resolve host"); return true; }
		NetEndpoint &ep = N.eps[x.ep];
		if (ep.dnsfail_next > 0) { ep.dnsfail_next--; K.count("fault.dnsfail"); N.dnsfail_log.push_back({K.seq, x.ep}); finish(x, CURLE_COULDNT_RESOLVE_HOST, "Could not resolve host"); return true; }
		if (ep.blackhole) { x.will_blackhole = true; K.count("fault.blackhole_connect"); }
		else if (ep.refuse_next > 0) { ep.refuse_next--; x.will_refuse = true; K.count("fault.refuse"); }
		x.ready_at = K.now_ms + ep.connect_delay_ms;
		x.st = Xfer::CONNECTING;
		K.ev("http x%d connecting ep%d refuse=%d bh=%d", x.idx, x.ep, x.will_refuse, x.will_blackhole);
	}
	if (x.st == Xfer::CONNECTING) {
		if (x.will_blackhole) {
			if (e->connect_timeout > 0 && K.now_ms - x.started_ms >= e->connect_timeout * 1000) {
				finish(x, CURLE_OPERATION_TIMEDOUT, "Connection timed out");
				return true;
			}
			return progress;
		}
		if (K.now_ms < x.ready_at) return progress;
		if (x.will_refuse) { finish(x, CURLE_COULDNT_CONNECT, "Connection refused"); return true; }
		// connected: the request goes out now. libcurl does not copy CURLOPT_POSTFIELDS; it reads the caller's
		// buffer at this point.
		if (e->has_copy) x.req_body = e->post_copy;
		else if (e->postfields) {
			size_t n = e->postsize >= 0 ? (size_t)e->postsize : strlen(e->postfields);
			x.req_body.assign(e->postfields, n);
		}
		x.st = Xfer::SENT;
		x.sent_seq = K.ev("http x%d sent %zu bytes", x.idx, x.req_body.size());
		if (C.on_request) C.on_request(x);
		progress = true;
	}
	if (x.st == Xfer::SENT) {
		if (x.srv_reset) { finish(x, CURLE_RECV_ERROR, "Recv failure: Connection reset by peer"); return true; }
		if (x.responded) {
			while (x.handed < x.arrived) {
				size_t n = x.arrived - x.handed;
				if (C.write_cut && n > C.write_cut) { n = C.write_cut; K.count("fault.recv_cut"); }
				size_t got = n;
				if (e->writefn) {
					// hand the callback a private copy so that out-of-bounds reads are visible to ASan
					char *tmp = (char *)malloc(n);
					memcpy(tmp, x.resp_body.data() + x.handed, n);
					got = e->writefn(tmp, 1, n, e->writedata);
					free(tmp);
				}
				K.ev("http x%d write %zu -> %zu", x.idx, n, got);
				x.handed += n;
				progress = true;
				if (got != n) { finish(x, CURLE_WRITE_ERROR, "Failed writing received data to disk/application"); return true; }
			}
			if (x.handed == x.resp_body.size()) { finish(x, CURLE_OK, ""); return true; }
		}
		if (x.srv_closed && (!x.responded || x.arrived == x.handed)) {
			if (!x.responded || x.handed == 0) finish(x, CURLE_GOT_NOTHING, "Empty reply from server");
			else finish(x, CURLE_PARTIAL_FILE, "transfer closed with outstanding read data remaining");
			return true;
		}
		if (e->timeout > 0 && K.now_ms - x.started_ms >= e->timeout * 1000) {
			finish(x, CURLE_OPERATION_TIMEDOUT, "Operation timed out");
			return true;
		}
	}
	return progress;
}

} // namespace sim

using namespace sim;

static Easy *E(CURL *h) {
	Easy *e = (Easy *)h;
	if (e && e->magic != 0xC0DE1EA5) { K.fail("C13", "curl-contract", "bad-easy-handle", "invalid easy handle used"); return nullptr; }
	return e;
}
static Multi *M(CURLM *h) {
	Multi *m = (Multi *)h;
	if (m && m->magic != 0xC0DE3171) { K.fail("C13", "curl-contract", "bad-multi-handle", "invalid multi handle used"); return nullptr; }
	return m;
}

extern "C" {

CURLcode curl_global_init(long flags) { (void)flags; return CURLE_OK; }
void curl_global_cleanup(void) {}

CURL *curl_easy_init(void) {
	C.live_easy++;
	return (CURL *)new Easy();
}

static void detach(Easy *e) {
	if (e->xfer && e->xfer->easy == e) {
		if (e->xfer->st != Xfer::DONE && e->xfer->st != Xfer::REMOVED) K.ev("http x%d aborted", e->xfer->idx);
		if (e->xfer->st != Xfer::DONE) e->xfer->st = Xfer::REMOVED;
		e->xfer->easy = nullptr;
	}
	e->xfer = nullptr;
}

void curl_easy_cleanup(CURL *h) {
	Easy *e = E(h);
	if (!e) return;
	if (e->multi) {
		auto &v = e->multi->easies;
		v.erase(std::remove(v.begin(), v.end(), e), v.end());
		auto &q = e->multi->msgs;
		q.erase(std::remove_if(q.begin(), q.end(), [&](const CURLMsg &m) { return m.easy_handle == h; }), q.end());
	}
	detach(e);
	e->magic = 0;
	C.live_easy--;
	delete e;
}

void curl_easy_reset(CURL *h) {
	Easy *e = E(h);
	if (!e) return;
	Multi *m = e->multi;
	Xfer *x = e->xfer;
	*e = Easy();
	e->multi = m;
	e->xfer = x;
}

#undef curl_easy_setopt
CURLcode curl_easy_setopt(CURL *h, CURLoption opt, ...) {
	Easy *e = E(h);
	va_list ap;
	va_start(ap, opt);
	long lv = 0; void *pv = nullptr;
	int kind = (int)opt / 10000;
	if (kind == 0) lv = va_arg(ap, long);
	else if (kind == 3) lv = (long)va_arg(ap, curl_off_t);
	else pv = va_arg(ap, void *);
	va_end(ap);
	if (!e) return CURLE_BAD_FUNCTION_ARGUMENT;
	switch (opt) {
		case CURLOPT_URL: e->url = pv ? (const char *)pv : ""; e->has_url = pv != nullptr; C.urls_seen.push_back(e->url); break;
		case CURLOPT_POSTFIELDS: e->postfields = (const char *)pv; e->has_copy = false; break;
		case CURLOPT_COPYPOSTFIELDS:
			// copied at once, using the size set before (strlen if none), as libcurl documents
			if (pv) { e->post_copy.assign((const char *)pv, e->postsize >= 0 ? (size_t)e->postsize : strlen((const char *)pv)); e->has_copy = true; e->postfields = nullptr; }
			else { e->has_copy = false; e->postfields = nullptr; }
			break;
		case CURLOPT_POSTFIELDSIZE: e->postsize = lv; break;
		case CURLOPT_POST: e->post = lv; break;
		case CURLOPT_WRITEFUNCTION: e->writefn = (curl_write_callback)pv; break;
		case CURLOPT_WRITEDATA: e->writedata = pv; break;
		case CURLOPT_PRIVATE: e->priv = pv; break;
		case CURLOPT_ERRORBUFFER: e->errbuf = (char *)pv; break;
		case CURLOPT_CONNECTTIMEOUT: e->connect_timeout = lv; break;
		case CURLOPT_TIMEOUT: e->timeout = lv; break;
		case CURLOPT_HTTPHEADER: e->headers = (struct curl_slist *)pv; break;
		default: break; // VERBOSE, NOPROGRESS, NOSIGNAL, USE_SSL, USERAGENT, FORBID_REUSE ...
	}
	return CURLE_OK;
}

#undef curl_easy_getinfo
CURLcode curl_easy_getinfo(CURL *h, CURLINFO info, ...) {
	Easy *e = E(h);
	va_list ap;
	va_start(ap, info);
	void *out = va_arg(ap, void *);
	va_end(ap);
	if (!e || !out) return CURLE_BAD_FUNCTION_ARGUMENT;
	switch (info) {
		case CURLINFO_PRIVATE: *(void **)out = e->priv; return CURLE_OK;
		case CURLINFO_RESPONSE_CODE: *(long *)out = e->xfer ? e->xfer->http_code : e->last_http_code; return CURLE_OK;
		default: return CURLE_UNKNOWN_OPTION;
	}
}

CURLcode curl_easy_perform(CURL *h) {
	Easy *e = E(h);
	if (!e) return CURLE_BAD_FUNCTION_ARGUMENT;
	if (e->multi) return CURLE_FAILED_INIT;
	if (!e->has_url) { set_err(e, "No URL set"); return CURLE_URL_MALFORMAT; }
	Xfer *x = start_xfer(e, true);
	for (int guard = 0; guard < 1000000; guard++) {
		step(*x);
		if (x->st == Xfer::DONE) break;
		bool again = C.on_block && C.on_block(*x);
		if (!again) {
			// nothing will ever arrive: run into the configured timeouts
			if (x->st == Xfer::CONNECTING && e->connect_timeout > 0) { K.advance(e->connect_timeout * 1000); }
			else if (e->timeout > 0) { K.advance(e->timeout * 1000); }
			else { K.advance(3600 * 1000); K.count("probe.blocked_without_timeout"); finish(*x, CURLE_OPERATION_TIMEDOUT, "Timeout was reached"); break; }
			step(*x);
			if (x->st != Xfer::DONE) finish(*x, CURLE_OPERATION_TIMEDOUT, "Timeout was reached");
			break;
		}
	}
	CURLcode rc = x->result;
	x->reported = true;
	x->reported_seq = K.seq;
	return rc;
}

CURLM *curl_multi_init(void) {
	C.live_multi++;
	return (CURLM *)new Multi();
}

CURLMcode curl_multi_cleanup(CURLM *h) {
	Multi *m = M(h);
	if (!m) return CURLM_BAD_HANDLE;
	for (Easy *e : m->easies) { e->multi = nullptr; detach(e); }
	m->magic = 0;
	C.live_multi--;
	delete m;
	return CURLM_OK;
}

CURLMcode curl_multi_add_handle(CURLM *mh, CURL *eh) {
	Multi *m = M(mh);
	Easy *e = E(eh);
	if (!m) return CURLM_BAD_HANDLE;
	if (!e) return CURLM_BAD_EASY_HANDLE;
	if (e->multi) return CURLM_ADDED_ALREADY;
	e->multi = m;
	m->easies.push_back(e);
	start_xfer(e, false);
	return CURLM_OK;
}

CURLMcode curl_multi_remove_handle(CURLM *mh, CURL *eh) {
	Multi *m = M(mh);
	Easy *e = E(eh);
	if (!m) return CURLM_BAD_HANDLE;
	if (!e) return CURLM_BAD_EASY_HANDLE;
	if (e->multi != m) return CURLM_OK;
	auto &v = m->easies;
	v.erase(std::remove(v.begin(), v.end(), e), v.end());
	auto &q = m->msgs;
	q.erase(std::remove_if(q.begin(), q.end(), [&](const CURLMsg &msg) { return msg.easy_handle == eh; }), q.end());
	e->multi = nullptr;
	Xfer *x = e->xfer;
	if (x && x->easy == e) {
		if (x->st != Xfer::DONE) { K.ev("http x%d removed while running", x->idx); x->st = Xfer::REMOVED; }
		long code = x->http_code;
		x->easy = nullptr;
		e->xfer = nullptr;
		e->last_http_code = code;
	}
	return CURLM_OK;
}

CURLMcode curl_multi_perform(CURLM *mh, int *running) {
	Multi *m = M(mh);
	if (!m) return CURLM_BAD_HANDLE;
	K.syscalls++; K.syscalls_in_call++;
	int run = 0;
	// iterate over a snapshot: callbacks must not add/remove handles, but be defensive
	std::vector<Easy *> snap = m->easies;
	for (Easy *e : snap) {
		Xfer *x = e->xfer;
		if (!x || x->easy != e) continue;
		if (x->st != Xfer::DONE && x->st != Xfer::REMOVED) step(*x);
		if (x->st == Xfer::DONE && !x->reported) {
			x->reported = true; // queued exactly once
			CURLMsg msg;
			msg.msg = CURLMSG_DONE;
			msg.easy_handle = (CURL *)e;
			msg.data.result = x->result;
			m->msgs.push_back(msg);
		}
		if (x->st != Xfer::DONE && x->st != Xfer::REMOVED) run++;
	}
	if (running) *running = run;
	return CURLM_OK;
}

CURLMsg *curl_multi_info_read(CURLM *mh, int *left) {
	Multi *m = M(mh);
	if (!m) { if (left) *left = 0; return nullptr; }
	if (m->msgs.empty()) { if (left) *left = 0; return nullptr; }
	m->cur = m->msgs.front();
	m->msgs.pop_front();
	if (left) *left = (int)m->msgs.size();
	Easy *e = (Easy *)m->cur.easy_handle;
	if (e && e->xfer) e->xfer->reported_seq = K.ev("http x%d reported", e->xfer->idx);
	return &m->cur;
}

const char *curl_multi_strerror(CURLMcode c) { (void)c; return "simcurl multi error"; }
const char *curl_easy_strerror(CURLcode c) { (void)c; return "simcurl easy error"; }

struct curl_slist *curl_slist_append(struct curl_slist *l, const char *s) {
	struct curl_slist *n = (struct curl_slist *)malloc(sizeof *n);
	if (!n) return nullptr;
	n->data = strdup(s);
	n->next = nullptr;
	if (!l) return n;
	struct curl_slist *p = l;
	while (p->next) p = p->next;
	p->next = n;
	return l;
}

void curl_slist_free_all(struct curl_slist *l) {
	while (l) { struct curl_slist *n = l->next; free(l->data); free(l); l = n; }
}

} // extern "C"
