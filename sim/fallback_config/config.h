/* src/ksi/config.h.  Generated from config.h.in by configure.  */
/* src/ksi/config.h.in.  Generated from configure.ac by autoheader.  */

/* Commit id */
#define COMMIT_ID "f9cd247d6e3f4a233fbf5513b2f209851f7e1dea"

/* Define to 1 if you have the <dlfcn.h> header file. */
#define HAVE_DLFCN_H 1

/* Define to 1 if you have the <inttypes.h> header file. */
#define HAVE_INTTYPES_H 1

/* Define to 1 if you have the `crypto' library (-lcrypto). */
#define HAVE_LIBCRYPTO 1

/* Define to 1 if you have the `curl' library (-lcurl). */
#define HAVE_LIBCURL 1

/* Define to 1 if you have the <stdint.h> header file. */
#define HAVE_STDINT_H 1

/* Define to 1 if you have the <stdio.h> header file. */
#define HAVE_STDIO_H 1

/* Define to 1 if you have the <stdlib.h> header file. */
#define HAVE_STDLIB_H 1

/* Define to 1 if you have the <strings.h> header file. */
#define HAVE_STRINGS_H 1

/* Define to 1 if you have the <string.h> header file. */
#define HAVE_STRING_H 1

/* Define to 1 if you have the <sys/stat.h> header file. */
#define HAVE_SYS_STAT_H 1

/* Define to 1 if you have the <sys/types.h> header file. */
#define HAVE_SYS_TYPES_H 1

/* Define to 1 if you have the <unistd.h> header file. */
#define HAVE_UNISTD_H 1

/* Disabling strict HTTP parsing to allow underscores in host names. */
#define HTTP_PARSER_STRICT 0

/* Default aggregation PDU version. */
/* #undef KSI_AGGREGATION_PDU_VERSION */

/* Build without net provider (bitfield). */
#define KSI_DISABLE_NET_PROVIDER 0

/* Default extending PDU version. */
/* #undef KSI_EXTENDING_PDU_VERSION */

/* Use OpenSSL. */
#define KSI_HASH_IMPL KSI_IMPL_OPENSSL

/* Define to the sub-directory where libtool stores uninstalled libraries. */
#define LT_OBJDIR ".libs/"

/* Path to the trusted CA certificate directory */
#define OPENSSL_CA_DIR "/etc/ssl/certs/"

/* Location of the trusted CA certificate bundle file */
#define OPENSSL_CA_FILE "/etc/ssl/certs/ca-certificates.crt"

/* Name of package */
#define PACKAGE "libksi"

/* Define to the address where bug reports for this package should be sent. */
#define PACKAGE_BUGREPORT "support@guardtime.com"

/* Define to the full name of this package. */
#define PACKAGE_NAME "libksi"

/* Define to the full name and version of this package. */
#define PACKAGE_STRING "libksi 3.20.3025"

/* Define to the one symbol short name of this package. */
#define PACKAGE_TARNAME "libksi"

/* Define to the home page for this package. */
#define PACKAGE_URL ""

/* Define to the version of this package. */
#define PACKAGE_VERSION "3.20.3025"

/* Define to 1 if all of the C90 standard headers exist (not just the ones
   required in a freestanding environment). This macro is provided for
   backward compatibility; new code need not use it. */
#define STDC_HEADERS 1

/* Location of the unit test xml results. */
#define UNIT_TEST_OUTPUT_XML "testsuite-xunit.xml"

/* Version number of package */
#define VERSION "3.20.3025"
