#include "sim/simnet.h"
#include "sim/kernel.h"
#include <cstring>
#include <cstdlib>
#include <cerrno>
#include <cstdarg>
#include <set>
#include <sys/types.h>
#include <sys/socket.h>
#include <sys/ioctl.h>
#include <netinet/in.h>
#include <netdb.h>
#include <poll.h>
#include <unistd.h>
#include <time.h>

namespace sim {

Net N;
static std::set<void *> g_ai_ours;

uint64_t Conn::seq_when_arrived(size_t cum) const {
	for (auto &p : arrive_log) if (p.second >= cum) return p.first;
	return 0;
}
uint64_t Conn::seq_when_read(size_t cum) const {
	for (auto &p : recv_log) if (p.second >= cum) return p.first;
	return 0;
}
uint64_t Conn::seq_when_sent(size_t cum) const {
	for (auto &p : sent_log) if (p.second >= cum) return p.first;
	return 0;
}

void Net::reset() {
	eps.clear();
	conns.clear();
	resolved.clear();
	dnsfail_log.clear();
	on_block = nullptr;
	max_fds_open = 0;
}

int Net::add_endpoint(const std::string &host, unsigned port) {
	NetEndpoint e;
	e.host = host; e.port = port;
	eps.push_back(e);
	return (int)eps.size() - 1;
}

Conn *Net::by_fd(int fd) {
	if (fd < FD_BASE) return nullptr;
	size_t i = (size_t)(fd - FD_BASE);
	if (i >= conns.size()) return nullptr;
	return conns[i].get();
}

Conn *Net::live_conn_of(int ep) {
	for (size_t i = conns.size(); i-- > 0;) {
		Conn *c = conns[i].get();
		if (c->ep == ep && !c->client_closed && c->st != Conn::NEW) return c;
	}
	return nullptr;
}

std::string Net::srv_take(Conn &c, size_t n) {
	size_t av = c.srv_unread();
	if (n > av) n = av;
	std::string r = c.c2s.substr(c.c2s_read, n);
	c.c2s_read += n;
	return r;
}

static void resolve_syn(Conn *c) {
	if (c->st != Conn::SYN_SENT) return;
	if (c->will_blackhole) return;
	if (K.now_ms < c->ready_at) return;
	if (c->will_refuse) {
		c->st = Conn::REFUSED;
		c->ended_seq = K.ev("net refused c%d", c->idx);
		c->end_kind = "refused";
	} else {
		c->st = Conn::ESTABLISHED;
		c->established_seq = K.ev("net established c%d", c->idx);
	}
}

void Net::srv_write(Conn &c, const std::string &bytes) {
	resolve_syn(&c); // a server can only act on a connection whose handshake has completed
	if (c.srv_closed || c.rst || c.st != Conn::ESTABLISHED) return;
	c.s2c_all += bytes;
}

size_t Net::deliver(Conn &c, size_t n) {
	resolve_syn(&c);
	if (c.st != Conn::ESTABLISHED || c.rst) return 0;
	size_t fl = c.inflight();
	if (n == 0 || n > fl) n = fl;
	if (n > 0) {
		c.s2c_arrived += n;
		uint64_t s = K.ev("net arrive c%d +%zu (=%zu)", c.idx, n, c.s2c_arrived);
		c.arrive_log.push_back({s, c.s2c_arrived});
	}
	if (c.srv_closed && c.inflight() == 0 && !c.fin_readable) {
		c.fin_readable = true;
		uint64_t s = K.ev("net fin-arrives c%d", c.idx);
		if (!c.ended_seq) { c.ended_seq = s; c.end_kind = "fin"; }
	}
	return n;
}

void Net::srv_close(Conn &c) {
	resolve_syn(&c);
	if (c.st != Conn::ESTABLISHED || c.srv_closed || c.rst) return;
	c.srv_closed = true;
	K.ev("net srv-close c%d (inflight %zu)", c.idx, c.inflight());
}

void Net::srv_reset(Conn &c) {
	resolve_syn(&c);
	if (c.st != Conn::ESTABLISHED || c.rst) return;
	c.rst = true;
	c.s2c_all.resize(c.s2c_arrived); // in-flight data is lost
	uint64_t s = K.ev("net rst c%d", c.idx);
	if (!c.ended_seq) { c.ended_seq = s; c.end_kind = "rst"; }
}

static void syscall_tick(bool progress) {
	K.syscalls++;
	K.syscalls_in_call++;
	if (!progress) K.noprogress_in_call++;
	if (K.syscalls > 4000000) { K.inconclusive = true; K.inconclusive_why = "syscall cap"; }
}

} // namespace sim

using namespace sim;

extern "C" {

time_t __real_time(time_t *);
int __real_close(int);
ssize_t __real_recv(int, void *, size_t, int);
ssize_t __real_send(int, const void *, size_t, int);
int __real_poll(struct pollfd *, nfds_t, int);
int __real_connect(int, const struct sockaddr *, socklen_t);
int __real_setsockopt(int, int, int, const void *, socklen_t);
int __real_ioctl(int, unsigned long, ...);
void __real_freeaddrinfo(struct addrinfo *);

time_t __wrap_time(time_t *t) {
	time_t v = (time_t)(K.now_ms / 1000);
	if (t) *t = v;
	return v;
}

int __wrap_getaddrinfo(const char *node, const char *service, const struct addrinfo *hints, struct addrinfo **res) {
	(void)hints;
	std::string h = node ? node : "", p = service ? service : "";
	N.resolved.push_back(h + ":" + p);
	int ep = -1;
	for (size_t i = 0; i < N.eps.size(); i++) {
		if (N.eps[i].host == h && std::to_string(N.eps[i].port) == p) { ep = (int)i; break; }
	}
	if (ep < 0) {
		K.ev("dns %s:%s -> NONAME", h.c_str(), p.c_str());
		K.count("net.dns_unknown");
		return EAI_NONAME;
	}
	if (N.eps[ep].dnsfail_next > 0) {
		N.eps[ep].dnsfail_next--;
		uint64_t sq = K.ev("dns %s:%s -> AGAIN (fault)", h.c_str(), p.c_str());
		N.dnsfail_log.push_back({sq, ep});
		K.count("fault.dnsfail");
		return EAI_AGAIN;
	}
	struct addrinfo *ai = (struct addrinfo *)calloc(1, sizeof(struct addrinfo) + sizeof(struct sockaddr_in));
	struct sockaddr_in *sa = (struct sockaddr_in *)(ai + 1);
	sa->sin_family = AF_INET;
	sa->sin_port = htons((uint16_t)N.eps[ep].port);
	sa->sin_addr.s_addr = htonl(0x0a000000u + (uint32_t)ep);
	ai->ai_family = AF_INET;
	ai->ai_socktype = SOCK_STREAM;
	ai->ai_protocol = IPPROTO_TCP;
	ai->ai_addrlen = sizeof(struct sockaddr_in);
	ai->ai_addr = (struct sockaddr *)sa;
	g_ai_ours.insert(ai);
	*res = ai;
	K.ev("dns %s:%s -> ep%d", h.c_str(), p.c_str(), ep);
	return 0;
}

void __wrap_freeaddrinfo(struct addrinfo *ai) {
	if (g_ai_ours.erase(ai)) { free(ai); return; }
	__real_freeaddrinfo(ai);
}

int __wrap_socket(int domain, int type, int protocol) {
	(void)domain; (void)type; (void)protocol;
	auto c = std::make_unique<Conn>();
	c->idx = (int)N.conns.size();
	c->opened_seq = K.ev("socket -> c%d", c->idx);
	N.conns.push_back(std::move(c));
	int open = 0;
	for (auto &k : N.conns) if (!k->client_closed) open++;
	if (open > N.max_fds_open) N.max_fds_open = open;
	syscall_tick(true);
	return FD_BASE + (int)N.conns.size() - 1;
}

int __wrap_ioctl(int fd, unsigned long req, ...) {
	va_list ap;
	va_start(ap, req);
	void *arg = va_arg(ap, void *);
	va_end(ap);
	Conn *c = N.by_fd(fd);
	if (!c) return __real_ioctl(fd, req, arg);
	if (req == FIONBIO) { c->nonblock = arg && *(int *)arg != 0; return 0; }
	errno = EINVAL;
	return -1;
}

int __wrap_setsockopt(int fd, int level, int optname, const void *optval, socklen_t optlen) {
	Conn *c = N.by_fd(fd);
	if (!c) return __real_setsockopt(fd, level, optname, optval, optlen);
	if (level == SOL_SOCKET && optval && optlen >= sizeof(struct timeval)) {
		const struct timeval *tv = (const struct timeval *)optval;
		if (optname == SO_RCVTIMEO) c->rcvtimeo_s = (int)tv->tv_sec;
		if (optname == SO_SNDTIMEO) c->sndtimeo_s = (int)tv->tv_sec;
	}
	return 0;
}


int __wrap_connect(int fd, const struct sockaddr *addr, socklen_t len) {
	Conn *c = N.by_fd(fd);
	if (!c) return __real_connect(fd, addr, len);
	syscall_tick(true);
	if (c->client_closed) { K.fail("C14", "fd-use-after-close", "connect", "connect on closed c%d", c->idx); errno = EBADF; return -1; }
	const struct sockaddr_in *sa = (const struct sockaddr_in *)addr;
	int ep = (int)(ntohl(sa->sin_addr.s_addr) - 0x0a000000u);
	if (ep < 0 || ep >= (int)N.eps.size()) { errno = ENETUNREACH; return -1; }
	NetEndpoint &e = N.eps[ep];
	c->ep = ep;
	c->st = Conn::SYN_SENT;
	c->ready_at = K.now_ms + e.connect_delay_ms;
	c->opened_ms = K.now_ms;
	if (e.blackhole) { c->will_blackhole = true; K.count("fault.blackhole_connect"); }
	else if (e.refuse_next > 0) { e.refuse_next--; c->will_refuse = true; K.count("fault.refuse"); }
	c->connect_seq = K.ev("connect c%d -> ep%d nb=%d refuse=%d bh=%d delay=%d", c->idx, ep, c->nonblock, c->will_refuse, c->will_blackhole, e.connect_delay_ms);
	if (c->nonblock) {
		errno = EINPROGRESS;
		return -1;
	}
	// blocking connect
	if (c->will_blackhole) {
		if (c->sndtimeo_s > 0) { K.advance((int64_t)c->sndtimeo_s * 1000); errno = EINPROGRESS; }
		else { K.advance(127000); errno = ETIMEDOUT; }
		K.ev("connect c%d timed out", c->idx);
		return -1;
	}
	if (K.now_ms < c->ready_at) K.advance(c->ready_at - K.now_ms);
	resolve_syn(c);
	if (c->st == Conn::REFUSED) { errno = ECONNREFUSED; return -1; }
	return 0;
}

int __wrap_poll(struct pollfd *fds, nfds_t nfds, int timeout) {
	bool any = false;
	for (nfds_t i = 0; i < nfds; i++) if (N.by_fd(fds[i].fd)) any = true;
	if (!any) return __real_poll(fds, nfds, timeout);
	int ready = 0;
	for (nfds_t i = 0; i < nfds; i++) {
		Conn *c = N.by_fd(fds[i].fd);
		fds[i].revents = 0;
		if (!c) continue;
		if (c->client_closed) { fds[i].revents = POLLNVAL; ready++; K.fail("C14", "fd-use-after-close", "poll", "poll on closed c%d", c->idx); continue; }
		short ev = 0;
		resolve_syn(c);
		switch (c->st) {
			case Conn::NEW: ev = POLLOUT | POLLHUP; break;
			case Conn::SYN_SENT: ev = 0; break;
			case Conn::REFUSED: ev = POLLIN | POLLOUT | POLLERR | POLLHUP; break;
			case Conn::DEAD: ev = POLLIN | POLLOUT | POLLERR | POLLHUP; break;
			case Conn::ESTABLISHED:
				if (c->rst) { ev = POLLIN | POLLOUT | POLLERR | POLLHUP; break; }
				if (c->readable() > 0 || c->fin_readable) ev |= POLLIN;
				if (c->srv_unread() < N.eps[c->ep].sndbuf_cap) ev |= POLLOUT;
				break;
		}
		ev &= (fds[i].events | POLLERR | POLLHUP | POLLNVAL);
		fds[i].revents = ev;
		if (ev) ready++;
		K.ev("poll c%d -> %d", c->idx, (int)ev);
	}
	syscall_tick(ready > 0);
	return ready;
}

ssize_t __wrap_recv(int fd, void *buf, size_t len, int flags) {
	Conn *c = N.by_fd(fd);
	if (!c) return __real_recv(fd, buf, len, flags);
	if (c->client_closed) { syscall_tick(true); K.fail("C14", "fd-use-after-close", "recv", "recv on closed c%d", c->idx); errno = EBADF; return -1; }
	resolve_syn(c);
	// a handshake still in progress: Linux makes a non-blocking reader wait (EAGAIN), it is not an error
	if (c->st == Conn::SYN_SENT && c->nonblock) { syscall_tick(false); K.ev("recv c%d -> EAGAIN (connecting)", c->idx); errno = EAGAIN; return -1; }
	if (c->st != Conn::ESTABLISHED && c->st != Conn::REFUSED) { syscall_tick(true); errno = ENOTCONN; return -1; }
	if (c->st == Conn::REFUSED) { syscall_tick(true); errno = ECONNREFUSED; return -1; }
	NetEndpoint &e = N.eps[c->ep];
	// reassembly-buffer discipline of the asynchronous reader (C14 #4)
	if (c->nonblock) {
		const unsigned char *b = (const unsigned char *)buf;
		if (!c->recv_base) c->recv_base = b;
		size_t cap = 2 * (0xffff + 4);
		if (b < c->recv_base || (size_t)(b - c->recv_base) + len > cap) {
			c->discipline_ok = false;
			K.fail("C14", "buffer-discipline", "recv-window", "recv(c%d) window [%zd,+%zu) outside the %zu-byte reassembly buffer",
			       c->idx, (ssize_t)(b - c->recv_base), len, cap);
			// do not perform the write
			syscall_tick(true);
			errno = EFAULT;
			return -1;
		}
	}
	for (int guard = 0;; guard++) {
		if (c->readable() > 0) {
			size_t n = c->readable();
			if (n > len) n = len;
			if (e.recv_cut && n > e.recv_cut) { n = e.recv_cut; K.count("fault.recv_cut"); }
			memcpy(buf, c->s2c_all.data() + c->s2c_read, n);
			c->s2c_read += n;
			uint64_t sq = K.ev("recv c%d len=%zu -> %zu", c->idx, len, n);
			c->recv_log.push_back({sq, c->s2c_read});
			K.bytes_in_call += n;
			syscall_tick(true);
			return (ssize_t)n;
		}
		if (c->rst) {
			syscall_tick(true);
			if (!c->rst_reported) { c->rst_reported = true; uint64_t s = K.ev("recv c%d -> ECONNRESET", c->idx); if (!c->noticed_seq) c->noticed_seq = s; errno = ECONNRESET; return -1; }
			K.ev("recv c%d -> 0 (after rst)", c->idx);
			return 0;
		}
		if (c->fin_readable) { syscall_tick(true); uint64_t s = K.ev("recv c%d -> 0 (fin)", c->idx); if (!c->noticed_seq) c->noticed_seq = s; return 0; }
		if (c->nonblock) { syscall_tick(false); K.ev("recv c%d -> EAGAIN", c->idx); errno = EAGAIN; return -1; }
		// blocking
		if (e.eintr_next > 0) { e.eintr_next--; K.count("fault.eintr"); syscall_tick(true); K.ev("recv c%d -> EINTR", c->idx); errno = EINTR; return -1; }
		bool again = guard < 100000 && N.on_block && N.on_block(*c, BLOCK_RECV);
		if (!again) {
			syscall_tick(true);
			if (c->rcvtimeo_s > 0) K.advance((int64_t)c->rcvtimeo_s * 1000);
			else { K.advance(3600 * 1000); K.count("probe.blocked_without_timeout"); }
			K.ev("recv c%d -> EAGAIN (SO_RCVTIMEO %d s)", c->idx, c->rcvtimeo_s);
			errno = EAGAIN;
			return -1;
		}
	}
}

ssize_t __wrap_send(int fd, const void *buf, size_t len, int flags) {
	Conn *c = N.by_fd(fd);
	if (!c) return __real_send(fd, buf, len, flags);
	if (c->client_closed) { syscall_tick(true); K.fail("C14", "fd-use-after-close", "send", "send on closed c%d", c->idx); errno = EBADF; return -1; }
	resolve_syn(c);
	if (c->st == Conn::SYN_SENT && c->nonblock) { syscall_tick(false); K.ev("send c%d -> EAGAIN (connecting)", c->idx); errno = EAGAIN; return -1; }
	if (c->st == Conn::REFUSED) { syscall_tick(true); errno = ECONNREFUSED; return -1; }
	if (c->st != Conn::ESTABLISHED) { syscall_tick(true); errno = ENOTCONN; return -1; }
	NetEndpoint &e = N.eps[c->ep];
	for (int guard = 0;; guard++) {
		if (c->rst) { syscall_tick(true); K.count("probe.epipe"); uint64_t s = K.ev("send c%d -> EPIPE", c->idx); if (!c->noticed_seq) c->noticed_seq = s; errno = EPIPE; return -1; }
		size_t room = c->srv_unread() < e.sndbuf_cap ? e.sndbuf_cap - c->srv_unread() : 0;
		if (room > 0 && len > 0) {
			size_t n = len < room ? len : room;
			if (e.send_cut && n > e.send_cut) n = e.send_cut;
			if (n < len) { K.count("fault.partial_send"); c->had_partial_send = true; }
			if (!c->nonblock && e.eintr_next > 0) { e.eintr_next--; K.count("fault.eintr"); syscall_tick(true); K.ev("send c%d -> EINTR", c->idx); errno = EINTR; return -1; }
			c->c2s.append((const char *)buf, n);
			uint64_t s = K.ev("send c%d len=%zu -> %zu (=%zu)", c->idx, len, n, c->c2s.size());
			c->sent_log.push_back({s, c->c2s.size()});
			K.bytes_in_call += n;
			syscall_tick(true);
			return (ssize_t)n;
		}
		if (len == 0) { syscall_tick(true); return 0; }
		if (c->nonblock) { syscall_tick(false); K.count("fault.send_wouldblock"); K.ev("send c%d len=%zu -> EAGAIN", c->idx, len); errno = EAGAIN; return -1; }
		bool again = guard < 100000 && N.on_block && N.on_block(*c, BLOCK_SEND);
		if (!again) {
			syscall_tick(true);
			if (c->sndtimeo_s > 0) K.advance((int64_t)c->sndtimeo_s * 1000);
			else { K.advance(3600 * 1000); K.count("probe.blocked_without_timeout"); }
			K.ev("send c%d -> EAGAIN (SO_SNDTIMEO %d s)", c->idx, c->sndtimeo_s);
			errno = EAGAIN;
			return -1;
		}
	}
}

int __wrap_close(int fd) {
	Conn *c = N.by_fd(fd);
	if (!c) return __real_close(fd);
	syscall_tick(true);
	if (c->client_closed) { K.fail("C14", "fd-use-after-close", "close", "double close of c%d", c->idx); errno = EBADF; return -1; }
	c->client_closed = true;
	uint64_t s = K.ev("close c%d", c->idx);
	if (!c->ended_seq) { c->ended_seq = s; c->end_kind = "clientclose"; }
	return 0;
}

} // extern "C"
