// SimNet: a small model of Linux TCP as seen through getaddrinfo/socket/ioctl/setsockopt/connect/poll/recv/send/close.
#pragma once
#include <cstdint>
#include <string>
#include <vector>
#include <memory>
#include <functional>

namespace sim {

static const int FD_BASE = 1 << 20;

struct NetEndpoint {
	std::string host;
	unsigned port = 0;
	// scripted transport state
	int refuse_next = 0;        // next n connects are refused
	bool blackhole = false;     // SYNs (and nothing else) are never answered
	int dnsfail_next = 0;       // next n resolutions fail
	int connect_delay_ms = 0;   // SYN/ACK round trip
	size_t sndbuf_cap = 1 << 22; // client send buffer (bytes not yet read by the server)
	size_t send_cut = 0;        // max bytes accepted per send() (0 = no cut)
	size_t recv_cut = 0;        // max bytes returned per recv() (0 = no cut)
	int eintr_next = 0;         // next n blocking send/recv calls are interrupted
};

struct Conn {
	int idx = 0;                // index in Net::conns; fd = FD_BASE + idx
	int ep = -1;
	enum St { NEW, SYN_SENT, ESTABLISHED, REFUSED, DEAD } st = NEW;
	bool nonblock = false;
	bool client_closed = false;
	bool srv_closed = false;    // server closed its side (FIN queued behind in-flight data)
	bool fin_readable = false;  // FIN has arrived at the client
	bool rst = false;           // RST has arrived at the client
	bool rst_reported = false;
	int64_t ready_at = 0;       // when the connect outcome becomes visible
	bool will_refuse = false, will_blackhole = false;
	int rcvtimeo_s = 0, sndtimeo_s = 0;
	// client -> server
	std::string c2s;            // everything the client's send() calls were granted
	size_t c2s_read = 0;        // consumed by the server model
	std::vector<std::pair<uint64_t, size_t>> sent_log; // (seq, cumulative bytes) after each accepted send
	// server -> client
	std::string s2c_all;        // everything the server wrote
	size_t s2c_arrived = 0;     // prefix that has arrived (readable or already read)
	size_t s2c_read = 0;        // prefix the client has taken with recv()
	std::vector<std::pair<uint64_t, size_t>> arrive_log; // (seq, cumulative arrived)
	std::vector<std::pair<uint64_t, size_t>> recv_log;   // (seq, cumulative taken by recv)
	int64_t opened_ms = 0;      // wall clock at connect()
	uint64_t connect_seq = 0;
	uint64_t opened_seq = 0, established_seq = 0, ended_seq = 0; // ended: FIN/RST visible or client close
	std::string end_kind;       // "fin", "rst", "refused", "clientclose"
	uint64_t noticed_seq = 0;   // when a call of the client first reported the end (recv 0 / ECONNRESET / ECONNREFUSED, send EPIPE, poll error bits)
	// reassembly-buffer discipline (async reader)
	const unsigned char *recv_base = nullptr;
	bool discipline_ok = true;
	bool had_partial_send = false;
	size_t readable() const { return s2c_arrived - s2c_read; }
	size_t inflight() const { return s2c_all.size() - s2c_arrived; }
	size_t srv_unread() const { return c2s.size() - c2s_read; }
	uint64_t seq_when_arrived(size_t cum) const; // seq at which the first `cum` bytes had all arrived (0 = not yet)
	uint64_t seq_when_sent(size_t cum) const;
	uint64_t seq_when_read(size_t cum) const;
};

// what the blocking hook is asked to do
enum BlockWhat { BLOCK_CONNECT, BLOCK_RECV, BLOCK_SEND };

struct Net {
	std::vector<NetEndpoint> eps;
	std::vector<std::unique_ptr<Conn>> conns;
	std::vector<std::string> resolved;    // "host:port" strings handed to getaddrinfo
	std::vector<std::pair<uint64_t, int>> dnsfail_log; // (seq, ep) of injected resolution failures
	// Called when a blocking socket call cannot complete. Must return true if it changed the
	// world so that retrying makes sense; false = nothing will ever happen (the call times out).
	std::function<bool(Conn &, BlockWhat)> on_block;
	// Called after bytes were accepted by send() (server models may react lazily).
	int max_fds_open = 0;

	void reset();
	int add_endpoint(const std::string &host, unsigned port);
	Conn *by_fd(int fd);
	Conn *live_conn_of(int ep);           // most recent not-client-closed connection to ep, or null
	// server side
	std::string srv_take(Conn &c, size_t n);     // consume up to n bytes the client sent
	std::string srv_peek(Conn &c) const { return c.c2s.substr(c.c2s_read); }
	void srv_write(Conn &c, const std::string &bytes);
	size_t deliver(Conn &c, size_t n);           // n = 0: everything in flight; returns bytes moved
	void srv_close(Conn &c);
	void srv_reset(Conn &c);
};

extern Net N;

bool selftest_simnet(std::string &report);

} // namespace sim
