#pragma once
#include <stddef.h>
#ifdef __cplusplus
extern "C" {
#endif

struct KSI_AsyncService_st;
struct KSI_AsyncHandle_st;
struct KSI_CTX_st;

struct peek_client {
	size_t pending, received, cache_slots, occupied, request_count, request_count_offset, tail;
	int has_server_conf, slot0;
	const struct KSI_AsyncHandle_st *server_conf; /* the handle in the configuration slot (a pushed configuration or the user's configuration request) */
};

int peek_is_ha(const struct KSI_AsyncService_st *s);
int peek_client(const struct KSI_AsyncService_st *s, struct peek_client *out);
size_t peek_ha_subservices(const struct KSI_AsyncService_st *s, struct KSI_AsyncService_st **out, size_t max);
size_t peek_ha_respqueue(const struct KSI_AsyncService_st *s);
size_t peek_handle_ref(const struct KSI_AsyncHandle_st *h);
int peek_handle_state(const struct KSI_AsyncHandle_st *h);
size_t peek_ctx_handle_recycle(struct KSI_CTX_st *ctx);
struct KSI_AggregationHashChain_st;
/* serialized 0x0801 element of an in-memory aggregation hash chain (malloc'ed, caller frees with free()); 0 on failure */
struct KSI_HashChainLink_st;
/* payload bytes (value of the 0x04 element) of a link's metadata sibling; 0 if the link has none */
size_t peek_link_metadata(struct KSI_HashChainLink_st *l, unsigned char *buf, size_t cap);
size_t peek_chain_bytes(struct KSI_CTX_st *ctx, struct KSI_AggregationHashChain_st *ch, unsigned char **out);

#ifdef __cplusplus
}
#endif
