/* White-box accessors: read libksi's private async state through the repo's own impl headers, the way the repo's
 * unit tests do (test/test_mock_async.c includes impl/net_async_impl.h). C file because internal.h is C-only. */
#include <ksi/ksi.h>
#include <ksi/net_async.h>
#include <ksi/net_ha.h>
#include "impl/net_async_impl.h"
#include "impl/ctx_impl.h"
#include "sim/peek.h"

int peek_is_ha(const KSI_AsyncService *s) {
	/* HA services install their own setEndpoint; plain ones share asyncService_setupAsyncClient for both */
	return s != NULL && s->setEndpoint != s->addEndpoint;
}

static KSI_AsyncClient *client_of(const KSI_AsyncService *s) {
	if (s == NULL || peek_is_ha(s)) return NULL;
	return (KSI_AsyncClient *)s->impl;
}

int peek_client(const KSI_AsyncService *s, struct peek_client *out) {
	KSI_AsyncClient *c = client_of(s);
	size_t i;
	if (c == NULL || out == NULL) return 0;
	out->pending = c->pending;
	out->received = c->received;
	out->cache_slots = c->options[KSI_ASYNC_OPT_REQUEST_CACHE_SIZE];
	out->occupied = 0;
	for (i = 0; c->reqCache != NULL && i < c->options[KSI_ASYNC_OPT_REQUEST_CACHE_SIZE]; i++) if (c->reqCache[i] != NULL) out->occupied++;
	out->has_server_conf = c->serverConf != NULL;
	out->request_count = c->requestCount;
	out->request_count_offset = c->requestCountOffset;
	out->tail = c->tail;
	out->slot0 = c->reqCache != NULL && c->reqCache[0] != NULL;
	return 1;
}

size_t peek_ha_subservices(const KSI_AsyncService *s, KSI_AsyncService **out, size_t max) {
	KSI_HighAvailabilityService *ha;
	size_t i, n;
	if (!peek_is_ha(s)) return 0;
	ha = (KSI_HighAvailabilityService *)s->impl;
	if (ha == NULL) return 0;
	n = KSI_AsyncServiceList_length(ha->services);
	for (i = 0; i < n && i < max; i++) {
		KSI_AsyncService *as = NULL;
		KSI_AsyncServiceList_elementAt(ha->services, i, &as);
		out[i] = as;
	}
	return n < max ? n : max;
}

size_t peek_ha_respqueue(const KSI_AsyncService *s) {
	KSI_HighAvailabilityService *ha;
	if (!peek_is_ha(s)) return 0;
	ha = (KSI_HighAvailabilityService *)s->impl;
	return ha ? KSI_AsyncHandleList_length(ha->respQueue) : 0;
}

size_t peek_handle_ref(const KSI_AsyncHandle *h) { return h ? h->ref : 0; }
int peek_handle_state(const KSI_AsyncHandle *h) { return h ? h->state : -1; }
size_t peek_ctx_handle_recycle(KSI_CTX *ctx) { return ctx ? KSI_AsyncHandleList_length(ctx->asyncHandleRecycle) : 0; }
