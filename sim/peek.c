/* White-box accessors: read libksi's private async state through the repo's own impl headers, the way the repo's
 * unit tests do (test/test_mock_async.c includes impl/net_async_impl.h). C file because internal.h is C-only. */
#include <ksi/ksi.h>
#include <ksi/net_async.h>
#include <ksi/net_ha.h>
#include "impl/net_async_impl.h"
#include "impl/ctx_impl.h"
#include "sim/peek.h"

int peek_is_ha(const KSI_AsyncService *s) {
	/* HA services install their own setEndpoint; plain ones share asyncService_setupAsyncClient for both */
	return s != NULL && s->setEndpoint != s->addEndpoint;
}

static KSI_AsyncClient *client_of(const KSI_AsyncService *s) {
	if (s == NULL || peek_is_ha(s)) return NULL;
	return (KSI_AsyncClient *)s->impl;
}

int peek_client(const KSI_AsyncService *s, struct peek_client *out) {
	KSI_AsyncClient *c = client_of(s);
	size_t i;
	if (c == NULL || out == NULL) return 0;
	out->pending = c->pending;
	out->received = c->received;
	out->cache_slots = c->options[KSI_ASYNC_OPT_REQUEST_CACHE_SIZE];
	out->occupied = 0;
	for (i = 0; c->reqCache != NULL && i < c->options[KSI_ASYNC_OPT_REQUEST_CACHE_SIZE]; i++) if (c->reqCache[i] != NULL) out->occupied++;
	out->has_server_conf = c->serverConf != NULL;
	out->server_conf = c->serverConf;
	out->request_count = c->requestCount;
	out->request_count_offset = c->requestCountOffset;
	out->tail = c->tail;
	out->slot0 = c->reqCache != NULL && c->reqCache[0] != NULL;
	return 1;
}

size_t peek_ha_subservices(const KSI_AsyncService *s, KSI_AsyncService **out, size_t max) {
	KSI_HighAvailabilityService *ha;
	size_t i, n;
	if (!peek_is_ha(s)) return 0;
	ha = (KSI_HighAvailabilityService *)s->impl;
	if (ha == NULL) return 0;
	n = KSI_AsyncServiceList_length(ha->services);
	for (i = 0; i < n && i < max; i++) {
		KSI_AsyncService *as = NULL;
		KSI_AsyncServiceList_elementAt(ha->services, i, &as);
		out[i] = as;
	}
	return n < max ? n : max;
}

size_t peek_ha_respqueue(const KSI_AsyncService *s) {
	KSI_HighAvailabilityService *ha;
	if (!peek_is_ha(s)) return 0;
	ha = (KSI_HighAvailabilityService *)s->impl;
	return ha ? KSI_AsyncHandleList_length(ha->respQueue) : 0;
}

size_t peek_handle_ref(const KSI_AsyncHandle *h) { return h ? h->ref : 0; }
int peek_handle_state(const KSI_AsyncHandle *h) { return h ? h->state : -1; }
size_t peek_ctx_handle_recycle(KSI_CTX *ctx) { return ctx ? KSI_AsyncHandleList_length(ctx->asyncHandleRecycle) : 0; }

#include <ksi/tlv.h>
#include <ksi/tlv_template.h>
#include <stdlib.h>
#include <string.h>
KSI_IMPORT_TLV_TEMPLATE(KSI_AggregationHashChain);

size_t peek_chain_bytes(KSI_CTX *ctx, KSI_AggregationHashChain *ch, unsigned char **out) {
	KSI_TLV *t = NULL;
	unsigned char *buf = NULL;
	size_t len = 0;
	if (KSI_TLV_new(ctx, 0x0801, 0, 0, &t) != KSI_OK) return 0;
	if (KSI_TlvTemplate_construct(ctx, t, ch, KSI_TLV_TEMPLATE(KSI_AggregationHashChain)) != KSI_OK || KSI_TLV_serialize(t, &buf, &len) != KSI_OK) { KSI_TLV_free(t); return 0; }
	*out = malloc(len ? len : 1);
	memcpy(*out, buf, len);
	KSI_free(buf);
	KSI_TLV_free(t);
	return len;
}

#include <ksi/tlv_element.h>
#include "impl/meta_data_element_impl.h"
size_t peek_link_metadata(KSI_HashChainLink *l, unsigned char *buf, size_t cap) {
	KSI_MetaDataElement *md = NULL;
	size_t len = 0;
	if (KSI_HashChainLink_getMetaData(l, &md) != KSI_OK || md == NULL) return 0;
	if (KSI_TlvElement_serialize(md->impl, buf, cap, &len, KSI_TLV_OPT_NO_HEADER) != KSI_OK) return 0;
	return len;
}
