#include "sim/kernel.h"
#include <cstdio>
#include <cstring>
#include <cerrno>

namespace sim {

Kernel K;

void Kernel::reset(int64_t epoch_ms) {
	now_ms = epoch_ms;
	elapsed_ms = 0;
	seq = 0;
	seq_ms.clear();
	hash = 0xcbf29ce484222325ULL;
	log.clear();
	counters.clear();
	violations.clear();
	syscalls = syscalls_in_call = noprogress_in_call = bytes_in_call = 0;
	inconclusive = false;
	inconclusive_why.clear();
	alias_from.clear(); alias_to.clear();
	errno = 0; // libksi reports stale errno values in places; make them a function of the run alone
}

uint64_t Kernel::ev(const char *fmt, ...) {
	char buf[512];
	va_list ap;
	va_start(ap, fmt);
	int n = vsnprintf(buf, sizeof buf, fmt, ap);
	va_end(ap);
	if (n < 0) n = 0;
	if (n >= (int)sizeof buf) n = sizeof buf - 1;
	++seq;
	if (seq_ms.size() <= seq) seq_ms.resize(seq + 1, now_ms);
	seq_ms[seq] = now_ms;
	uint64_t h = hash;
	for (int i = 0; i < n; i++) { h ^= (unsigned char)buf[i]; h *= 0x100000001b3ULL; }
	h ^= 0x0a; h *= 0x100000001b3ULL;
	hash = h;
	if (trace) {
		char pre[64];
		snprintf(pre, sizeof pre, "%6llu t=%lld ", (unsigned long long)seq, (long long)now_ms);
		log.push_back(std::string(pre) + buf);
	}
	return seq;
}

void Kernel::advance(int64_t ms) {
	if (ms <= 0) return;
	now_ms += ms;
	elapsed_ms += ms;
}

void Kernel::jump(int64_t ms) {
	now_ms += ms;
	if (now_ms < 0) now_ms = 0;
}

void Kernel::fail(const char *prop, const char *rule, const std::string &key, const char *fmt, ...) {
	char buf[1024];
	va_list ap;
	va_start(ap, fmt);
	vsnprintf(buf, sizeof buf, fmt, ap);
	va_end(ap);
	Violation v;
	std::string orig = prop;
	if (!alias_from.empty() && alias_from == prop) prop = alias_to.c_str();
	v.oracle_property = orig;
	v.property = prop; v.rule = rule; v.key = key; v.detail = buf; v.seq = seq;
	violations.push_back(v);
	ev("ORACLE %s/%s [%s] %s", prop, rule, key.c_str(), buf);
}

void Kernel::api_begin(const char *name) {
	syscalls_in_call = 0;
	noprogress_in_call = 0;
	bytes_in_call = 0;
	(void)name;
}

std::string hexs(const void *p, size_t n, size_t max) {
	static const char *d = "0123456789abcdef";
	std::string s;
	const unsigned char *b = (const unsigned char *)p;
	for (size_t i = 0; i < n && i < max; i++) { s += d[b[i] >> 4]; s += d[b[i] & 15]; }
	if (n > max) s += "..";
	return s;
}

} // namespace sim
