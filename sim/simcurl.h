// SimCurl: our own implementation of the 16 libcurl entry points libksi uses (instead of -lcurl).
#pragma once
#include <cstdint>
#include <string>
#include <vector>
#include <memory>
#include <functional>
#include <curl/curl.h>

namespace sim {

struct Easy;
struct Multi;

// One HTTP transfer (one POST). Lives as long as the run; indexes are stable.
struct Xfer {
	int idx = 0;
	int ep = -1;                // endpoint index (by URL host:port), -1 = unknown host
	Easy *easy = nullptr;       // null once detached
	enum St { QUEUED, CONNECTING, SENT, DONE, REMOVED } st = QUEUED;
	bool blocking = false;
	std::string url;
	std::string path;           // path part of the URL
	// transport script captured at connect time
	bool will_refuse = false, will_blackhole = false, dnsfail = false;
	int64_t started_ms = 0, ready_at = 0, added_ms = 0;
	// request
	std::string req_body;       // bytes read from CURLOPT_POSTFIELDS at send time
	std::string body_at_add;    // what the POST buffer held when the transfer was created (bookkeeping only)
	bool is_post = false;
	uint64_t added_seq = 0, sent_seq = 0, done_seq = 0, reported_seq = 0;
	// response as produced by the server model
	bool responded = false;     // server has produced status + body
	long http_code = 0;
	std::string resp_body;
	size_t arrived = 0;         // bytes that have reached the client side
	size_t handed = 0;          // bytes already given to the write callback
	bool srv_closed = false;    // connection closed by peer (after the arrived bytes)
	bool srv_reset = false;
	uint64_t last_arrive_seq = 0; // seq when the final body byte arrived
	// completion
	CURLcode result = CURLE_OK;
	bool reported = false;      // CURLMSG_DONE handed out
	size_t inflight() const { return responded ? resp_body.size() - arrived : 0; }
};

struct Curl {
	std::vector<std::unique_ptr<Xfer>> xfers;
	std::vector<std::string> urls_seen;           // every CURLOPT_URL value
	// the server model learns about a request when its body has been "sent"
	std::function<void(Xfer &)> on_request;
	// blocking curl_easy_perform: called while the transfer cannot complete; true = world changed
	std::function<bool(Xfer &)> on_block;
	size_t write_cut = 0;                         // max bytes per write-callback invocation (0 = all)
	int live_easy = 0, live_multi = 0;            // handle leak accounting
	void reset();
	// server side API
	void respond(Xfer &x, long http_code, const std::string &body);
	size_t deliver(Xfer &x, size_t n);            // n = 0: all
	void srv_close(Xfer &x);
	void srv_reset(Xfer &x);
};

extern Curl C;

} // namespace sim
