ENGINES = [
 {"name": "async", "path": "eng/async.cc", "serves_properties": ["C13", "C14", "C06"], "kind_free_text": "real net_async.c + net_tcp_async.c / net_http_curl_async.c over SimNet / SimCurl, simulated clock, reference aggregator/extender"},
]
PENDING = {
 "C04": "claimed by design (DESIGN.md §6) but its engine is not built yet",
 "C06": "claimed by design (DESIGN.md §6) but its engine is not built yet",
 "C07": "claimed by design (DESIGN.md §6) but its engine is not built yet",
 "C08": "claimed by design (DESIGN.md §6) but its engine is not built yet",
 "C11": "claimed by design (DESIGN.md §6) but its engine is not built yet",
 "C13": "claimed by design (DESIGN.md §6) but its engine is not built yet",
 "C14": "claimed by design (DESIGN.md §6) but its engine is not built yet",
 "C15": "claimed by design (DESIGN.md §6) but its engine is not built yet",
 "C16": "claimed by design (DESIGN.md §6) but its engine is not built yet",
 "C19": "claimed by design (DESIGN.md §6) but its engine is not built yet",
}
CLAIMED = {}
