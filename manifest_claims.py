ENGINES = [
 {"name": "ha", "path": "eng/ha.cc", "serves_properties": ["C15"], "kind_free_text": "real net_ha.c over real async sub-services on SimNet / SimCurl"},
 {"name": "async", "path": "eng/async.cc", "serves_properties": ["C13", "C14", "C06"], "kind_free_text": "real net_async.c + net_tcp_async.c / net_http_curl_async.c over SimNet / SimCurl, simulated clock, reference aggregator/extender"},
]
PENDING = {
 "C04": "claimed by design (DESIGN.md §6) but its engine is not built yet",
 "C06": "claimed by design (DESIGN.md §6) but its engine is not built yet",
 "C07": "claimed by design (DESIGN.md §6) but its engine is not built yet",
 "C08": "claimed by design (DESIGN.md §6) but its engine is not built yet",
 "C11": "claimed by design (DESIGN.md §6) but its engine is not built yet",
 "C13": "claimed by design (DESIGN.md §6) but its engine is not built yet",
 "C14": "claimed by design (DESIGN.md §6) but its engine is not built yet",
 "C15": "claimed by design (DESIGN.md §6) but its engine is not built yet",
 "C16": "claimed by design (DESIGN.md §6) but its engine is not built yet",
 "C19": "claimed by design (DESIGN.md §6) but its engine is not built yet",
}
TB = "Trusted base: SimNet / SimCurl / SimAlloc model the kernel TCP stack, libcurl and the allocator (DESIGN.md 2.2-2.4); the reference KSI world (ref/*.cc) is independent of libksi and validated against the SDK's acceptance of honest replies in every run; sampling, not proof."
CLAIMED = {
 "C13": {"engine": "async", "category": "exploration",
  "technique": "deterministic simulation: seeded schedules of add/run/deliver/server-reply/fault ops against real net_async.c + net_tcp_async.c / net_http_curl_async.c on a simulated socket layer, libcurl and clock; history oracles (exactly-once, response and error soundness, cache-full and pending-count identities, bounded liveness after quiesce)",
  "text": "Seeded search over interleavings and fault sequences of the asynchronous service with a reference aggregator/extender behind simulated TCP and HTTP; every run is checked online against a history model. Right level because the property quantifies over schedules and network behaviours no unit test reaches; a clean batch is evidence, not proof.",
  "note": TB, "design_ref": "DESIGN.md 6 (C13), 2, 3"},
 "C14": {"engine": "async", "category": "exploration",
  "technique": "deterministic simulation: arbitrary segmentation, partial sends, would-block, close/reset/refuse/black-hole at arbitrary byte offsets on simulated TCP; oracles on the outgoing byte stream (whole PDUs in submission order), reassembly-buffer discipline, no spinning, recovery on a fresh connection",
  "text": "Seeded search over chunkings and fault positions of the TCP byte streams under the real async and blocking TCP clients; the wire is parsed by an independent TLV codec. Sampling of a space too large to enumerate.",
  "note": TB, "design_ref": "DESIGN.md 6 (C14)"},
 "C15": {"engine": "ha", "category": "exploration",
  "technique": "deterministic simulation: real net_ha.c over 1..3 real async sub-services (TCP and HTTP mixed) with per-endpoint reference servers, all arrival orders of replies, failures and configuration pushes; oracles: exactly-once, response only from a valid endpoint reply, error only when no endpoint is failure-free, notices one-to-one, consolidated configuration equals an order-independent reference fold",
  "text": "Seeded search over per-endpoint outcome orders and timings of the high-availability service; the reference fold over the pushed configurations decides consolidation independently of arrival order.",
  "note": TB + " One configuration per endpoint and run (a later configuration from the same endpoint replaces an earlier unprocessed one inside the sub-service).", "design_ref": "DESIGN.md 6 (C15)"},
 "C06": {"engine": "async", "category": "exploration",
  "technique": "deterministic simulation with a tamper fault: every request PDU reaching a simulated server is re-MACed by an independent HMAC; replies are bit-flipped, truncated, spliced, re-keyed, re-framed in flight and must never be delivered as content",
  "text": "Independent MAC check of every request at every simulated endpoint in every run, and in-flight corruption of replies with the oracle that content reaches the caller only from PDUs that verify under the configured key and algorithm as delivered.",
  "note": TB, "design_ref": "DESIGN.md 6 (C06)"},
}
