#!/bin/sh
# tools/check_seeded.sh [tier] : applies every stored seeded change in turn and runs the check(s) that are recorded to report it;
# prints one line per change. /repo must be clean. (About 1-2 minutes per change.)
tier=${1:-quick}
VERIF_HOME=${VERIF_HOME:-/verif}; export VERIF_HOME
cd $VERIF_HOME || exit 2
# the batch may end soon after the first violation that is not a known finding (the question here is only "reported or not")
VERIF_STOP_EARLY=1; export VERIF_STOP_EARLY
fail=0
for d in seeded/*/; do
	id=$(basename $d)
	prop=${id%-*}
	checks=$prop
	# changes that only the asynchronous engine sees are reported by the checks that run it
	case $id in C07-3) checks="C13";; C11-4) checks="C11";; esac
	caught=no
	for c in $checks; do
		out=$(tools/try_mutant.sh $VERIF_HOME/$d/patch.diff $tier $c 2>&1 | grep "^MUTANT")
		case "$out" in *"exit=1 violations="[1-9]*) caught=yes;; esac
	done
	echo "$id: caught=$caught ($checks $tier)"
	[ $caught = yes ] || fail=1
done
exit $fail
