#!/bin/sh
# tools/eval_mutant.sh <Pxx> <wave> [check ...]: store /tmp/mut-<P>-<wave>/_mutant as seeded/<P>-<wave>, confirm it on scratch copies, try the quick check(s)
p=$1; w=$2; shift 2
src=/tmp/mut-$p-$w/_mutant; dst=/verif/seeded/$p-$w
[ -f $src/patch.diff ] || { echo "no $src/patch.diff"; exit 2; }
mkdir -p $dst
for f in patch.diff demo.c run_demo.sh meta.txt; do [ -f $src/$f ] && cp $src/$f $dst/; done
# further small sources the demo needs
for f in $src/* $src/res/*; do [ -f "$f" ] && [ $(stat -c %s "$f") -lt 200000 ] && cp -n "$f" $dst/; done
/verif/tools/confirm_mutant.sh $dst 2>&1 | tail -4
checks=${*:-$p}
/verif/tools/try_mutant.sh $dst/patch.diff quick $checks 2>&1 | grep -v "replays/fixed" | tail -8
