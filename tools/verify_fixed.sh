#!/bin/sh
# tools/verify_fixed.sh : for every "fixed" entry of known_findings.json, revert that fix in /repo's working tree, rebuild, replay the
# stored regression file and expect REPRODUCED; restore /repo. Shows that the regression replays still bite with the current harness.
cd /verif || exit 2
git -C /repo diff --quiet || { echo "/repo working tree is not clean"; exit 2; }
bad=0
python3 - <<'PY' > /tmp/verify_fixed.list
import json
for f in json.load(open('/verif/known_findings.json'))['findings']:
    if f['status']=='fixed': print(f['commit'], f['replay'])
PY
while read c r; do
	# (a later fix may have changed a line of this one: revert the hunks that still apply)
	git -C /repo show $c -- src | git -C /repo apply -R 2>/dev/null || { git -C /repo show $c -- src | git -C /repo apply -R --reject >/dev/null 2>&1; find /repo/src -name '*.rej' -delete; git -C /repo diff --quiet && { echo "cannot revert $c"; bad=1; continue; }; echo "note $c reverted in part"; }
	out=$(./check replay $r 2>&1 | tail -1)
	git -C /repo checkout -- .
	case "$out" in REPRODUCED*) echo "ok   $c $r";; *) echo "FAIL $c $r : $out"; bad=1;; esac
done < /tmp/verify_fixed.list
rm -f /tmp/verify_fixed.list
make -s -j16 build > /dev/null 2>&1
exit $bad
