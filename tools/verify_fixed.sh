#!/bin/sh
# tools/verify_fixed.sh : for every "fixed" entry of known_findings.json, revert that fix in /repo's working tree, rebuild, replay the
# stored regression file and expect REPRODUCED; restore /repo. Shows that the regression replays still bite with the current harness.
cd /verif || exit 2
git -C /repo diff --quiet || { echo "/repo working tree is not clean"; exit 2; }
bad=0
python3 - <<'PY' > /tmp/verify_fixed.list
import json
for f in json.load(open('/verif/known_findings.json'))['findings']:
    if f['status']=='fixed': print(f['commit'], f['replay'])
PY
while read c r; do
	git -C /repo show $c -- src | git -C /repo apply -R || { echo "cannot revert $c"; bad=1; continue; }
	out=$(./check replay $r 2>&1 | tail -1)
	git -C /repo checkout -- .
	case "$out" in REPRODUCED*) echo "ok   $c $r";; *) echo "FAIL $c $r : $out"; bad=1;; esac
done < /tmp/verify_fixed.list
rm -f /tmp/verify_fixed.list
make -s -j16 build > /dev/null 2>&1
exit $bad
