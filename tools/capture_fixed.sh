#!/bin/sh
# tools/capture_fixed.sh <fix-commit> <engine> <property> <rule-substr> <key-substr> <name> [nseeds]
# Reverts one fix in /repo's working tree, searches for the violation it repaired, stores the minimised replay as
# replays/fixed/<name>.json, restores the tree and confirms that the replay no longer reproduces.
set -e
C=$1; ENG=$2; PROP=$3; RULE=$4; KEY=$5; NAME=$6; N=${7:-30000}
cd /verif
git -C /repo show $C | git -C /repo apply -R
trap 'git -C /repo checkout -- .' EXIT
OUT=$(FIND_ISOLATED=1 ./check find $ENG $PROP "$RULE" "$KEY" $N || true)
echo "$OUT" | cut -c1-300
F=$(echo "$OUT" | sed -n 's/^VIOLATION property=[^ ]* replay=//p' | head -1)
[ -n "$F" ] || { echo "NOT FOUND"; exit 1; }
mkdir -p replays/fixed
mv "$F" replays/fixed/$NAME.json
git -C /repo checkout -- .
trap - EXIT
./check replay replays/fixed/$NAME.json | tail -1
