#!/bin/sh
# tools/confirm_mutant.sh <mutant dir with patch.diff and run_demo.sh>
# scratch copies of /repo (pristine and patched) outside /repo and /verif; include-test on the patched copy; demo on both.
d=$1
P=/tmp/confirm-pristine-$$; M=/tmp/confirm-patched-$$
rsync -a --exclude .git /repo/ $P/ && rsync -a --exclude .git /repo/ $M/
( cd $M && patch -p1 -s < $d/patch.diff ) || { echo "patch failed"; rm -rf $P $M; exit 2; }
( cd $M && make include-test 2>&1 | tail -3 ) | sed 's/^/include-test(patched): /'
bash $d/run_demo.sh $P > /tmp/confirm-$$.p.log 2>&1; rp=$?
bash $d/run_demo.sh $M > /tmp/confirm-$$.m.log 2>&1; rm_=$?
echo "demo pristine exit=$rp : $(tail -1 /tmp/confirm-$$.p.log)"
echo "demo patched  exit=$rm_ : $(tail -2 /tmp/confirm-$$.m.log | tr '\n' ' ')"
rm -rf $P $M /tmp/confirm-$$.*
