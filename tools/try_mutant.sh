#!/bin/sh
# tools/try_mutant.sh <patch.diff> <tier> <prop> [<prop> ...]
# applies a seeded change to /repo's working tree, runs the named checks, restores /repo. Prints one line per check.
patch=$1; tier=$2; shift 2
# REPO / VERIF_HOME: work on copies (a git clone of /repo and a copy of /verif) instead of the originals
REPO=${REPO:-/repo}; VERIF_HOME=${VERIF_HOME:-/verif}; export REPO
cd $REPO || exit 2
git diff --quiet || { echo "$REPO working tree is not clean"; exit 2; }
git apply "$patch" || { echo "patch does not apply"; exit 2; }
# evidence written while the seeded change is applied does not describe /repo: keep the committed files
rm -rf /tmp/try_mutant.evidence.$$; cp -r $VERIF_HOME/evidence /tmp/try_mutant.evidence.$$
for p in "$@"; do
	out=/tmp/try_mutant.$$.$p.log
	( cd $VERIF_HOME && ./check $p $tier ) > $out 2>&1
	rc=$?
	v=$(grep -c '^VIOLATION' $out)
	echo "MUTANT $(basename $(dirname $patch)) check=$p tier=$tier exit=$rc violations=$v"
	grep -E '^VIOLATION|^  rule=' $out | head -6 | cut -c1-300
	rm -f $out
done
git -C $REPO checkout -- .
rm -rf $VERIF_HOME/evidence; mv /tmp/try_mutant.evidence.$$ $VERIF_HOME/evidence
cd $VERIF_HOME && git status --porcelain replays 2>/dev/null | awk '{print $2}' | grep -v '^replays/fixed/' | xargs -r rm -f
