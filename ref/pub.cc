#include "ref/pub.h"
#include "ref/ksi.h"
#include <openssl/pem.h>
#include <openssl/x509.h>
#include <openssl/pkcs7.h>
#include <openssl/evp.h>
#include <openssl/bio.h>
#include <map>
#include <cstdio>
#include <cstdlib>
#include <ctime>

namespace ref {

std::string fixtures_dir() {
	const char *d = getenv("VERIF_DIR");
	return std::string(d ? d : "/verif") + "/fixtures";
}

static int64_t asn1_to_unix(const ASN1_TIME *t) {
	struct tm tmv;
	if (!ASN1_TIME_to_tm(t, &tmv)) return 0;
	return (int64_t)timegm(&tmv);
}

const Pki &pki(const std::string &name) {
	static std::map<std::string, Pki> cache;
	auto it = cache.find(name);
	if (it != cache.end()) return it->second;
	Pki p; p.name = name;
	std::string base = fixtures_dir() + "/" + name;
	if (FILE *f = fopen((base + ".key").c_str(), "r")) { p.key = PEM_read_PrivateKey(f, nullptr, nullptr, nullptr); fclose(f); }
	if (FILE *f = fopen((base + ".pem").c_str(), "r")) { p.cert = PEM_read_X509(f, nullptr, nullptr, nullptr); fclose(f); }
	if (p.cert) {
		unsigned char *buf = nullptr;
		int n = i2d_X509((X509 *)p.cert, &buf);
		if (n > 0) { p.der.assign((char *)buf, (size_t)n); OPENSSL_free(buf); }
		p.cert_id = digest(1, p.der).substr(0, 4);
		p.not_before = asn1_to_unix(X509_get0_notBefore((X509 *)p.cert));
		p.not_after = asn1_to_unix(X509_get0_notAfter((X509 *)p.cert));
	}
	return cache[name] = p;
}

bool rsa_sha256_sign(const Pki &k, const std::string &data, std::string &sig) {
	if (!k.key) return false;
	EVP_MD_CTX *c = EVP_MD_CTX_new();
	bool ok = false;
	size_t n = 0;
	if (EVP_DigestSignInit(c, nullptr, EVP_sha256(), nullptr, (EVP_PKEY *)k.key) == 1 &&
	    EVP_DigestSignUpdate(c, data.data(), data.size()) == 1 && EVP_DigestSignFinal(c, nullptr, &n) == 1) {
		sig.resize(n);
		if (EVP_DigestSignFinal(c, (unsigned char *)&sig[0], &n) == 1) { sig.resize(n); ok = true; }
	}
	EVP_MD_CTX_free(c);
	return ok;
}

bool rsa_sha256_verify(const Pki &k, const std::string &data, const std::string &sig) {
	if (!k.cert) return false;
	EVP_PKEY *pub = X509_get0_pubkey((X509 *)k.cert);
	EVP_MD_CTX *c = EVP_MD_CTX_new();
	bool ok = EVP_DigestVerifyInit(c, nullptr, EVP_sha256(), nullptr, pub) == 1 &&
	          EVP_DigestVerifyUpdate(c, data.data(), data.size()) == 1 &&
	          EVP_DigestVerifyFinal(c, (const unsigned char *)sig.data(), sig.size()) == 1;
	EVP_MD_CTX_free(c);
	return ok;
}

std::string build_pubfile(const std::vector<const Pki *> &certs, const std::vector<PubEntry> &pubs, const Pki &signer, uint64_t created, int mutation) {
	std::string body = "KSIPUBLF";
	body += Tlv::nest(0x0701, {Tlv::u64(0x01, 2), Tlv::u64(0x02, created), Tlv::str(0x03, "http://pub.sim/ksi-publications.bin")}).enc();
	for (auto *c : certs) body += Tlv::nest(0x0702, {Tlv::raw(0x01, c->cert_id), Tlv::raw(0x02, c->der)}).enc();
	for (auto &p : pubs) body += Tlv::nest(0x0703, {Tlv::nest(0x10, {Tlv::u64(0x02, p.time), Tlv::raw(0x04, p.hash)})}).enc();
	if (mutation == 2) return body;
	std::string der;
	BIO *in = BIO_new_mem_buf(body.data(), (int)body.size());
	PKCS7 *p7 = PKCS7_sign((X509 *)signer.cert, (EVP_PKEY *)signer.key, nullptr, in, PKCS7_DETACHED | PKCS7_BINARY | PKCS7_NOATTR);
	if (p7) {
		unsigned char *buf = nullptr;
		int n = i2d_PKCS7(p7, &buf);
		if (n > 0) { der.assign((char *)buf, (size_t)n); OPENSSL_free(buf); }
		PKCS7_free(p7);
	}
	BIO_free(in);
	if (mutation == 1 && body.size() > 40) body[body.size() - 3] ^= 0x01; // a signed byte changed after signing
	return body + Tlv::raw(0x0704, der).enc();
}

} // namespace ref
