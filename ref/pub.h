// RefPub: publications file builder + fixture PKI (test-only keys under /verif/fixtures).
#pragma once
#include "ref/tlv.h"
#include <vector>
#include <string>
#include <cstdint>

namespace ref {

struct Pki {
	std::string name;
	void *key = nullptr;    // EVP_PKEY*
	void *cert = nullptr;   // X509*
	std::string der;        // certificate DER
	std::string cert_id;    // 4 bytes
	int64_t not_before = 0, not_after = 0;
	bool ok() const { return key && cert; }
};

const Pki &pki(const std::string &name);  // loads /verif/fixtures/<name>.{key,pem} once
std::string fixtures_dir();

bool rsa_sha256_sign(const Pki &k, const std::string &data, std::string &sig);
bool rsa_sha256_verify(const Pki &k, const std::string &data, const std::string &sig);

struct PubEntry { uint64_t time; std::string hash; };

// mutation: 0 none, 1 signature over other bytes (a signed byte changed afterwards), 2 no signature record
std::string build_pubfile(const std::vector<const Pki *> &certs, const std::vector<PubEntry> &pubs, const Pki &signer, uint64_t created, int mutation = 0);

} // namespace ref
