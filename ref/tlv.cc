#include "ref/tlv.h"

namespace ref {

std::string be64min(uint64_t v) {
	std::string s;
	while (v) { s.insert(s.begin(), (char)(v & 0xff)); v >>= 8; }
	return s; // zero is the empty octet string (libksi rejects a single 0x00 as non-minimal)
}

Tlv Tlv::raw(unsigned tag, const std::string &bytes) { Tlv t; t.tag = tag; t.val = bytes; return t; }
Tlv Tlv::u64(unsigned tag, uint64_t v) { return raw(tag, be64min(v)); }
Tlv Tlv::str(unsigned tag, const std::string &s) { std::string b = s; b.push_back('\0'); return raw(tag, b); }
Tlv Tlv::nest(unsigned tag, std::vector<Tlv> kids) { Tlv t; t.tag = tag; t.nested = true; t.kids = std::move(kids); return t; }

std::string Tlv::payload() const {
	if (!nested) return val;
	std::string p;
	for (auto &k : kids) p += k.enc();
	return p;
}

std::string Tlv::enc() const {
	std::string p = payload();
	std::string h;
	unsigned char f = (nc ? 0x40 : 0) | (fwd ? 0x20 : 0);
	if (!force16 && tag <= 0x1f && p.size() <= 0xff) {
		h.push_back((char)(f | tag));
		h.push_back((char)p.size());
	} else {
		h.push_back((char)(0x80 | f | ((tag >> 8) & 0x1f)));
		h.push_back((char)(tag & 0xff));
		h.push_back((char)((p.size() >> 8) & 0xff));
		h.push_back((char)(p.size() & 0xff));
	}
	return h + p;
}

size_t frame_len(const unsigned char *p, size_t n) {
	if (n < 2) return 0;
	if (p[0] & 0x80) {
		if (n < 4) return 0;
		return 4 + (((size_t)p[2] << 8) | p[3]);
	}
	return 2 + (size_t)p[1];
}

size_t frame_len(const std::string &buf, size_t off) {
	if (off > buf.size()) return 0;
	return frame_len((const unsigned char *)buf.data() + off, buf.size() - off);
}

bool Tlv::parse1(const std::string &buf, size_t off, Tlv &out, size_t &used) {
	size_t fl = frame_len(buf, off);
	if (fl == 0 || off + fl > buf.size()) return false;
	const unsigned char *p = (const unsigned char *)buf.data() + off;
	out = Tlv();
	out.nc = p[0] & 0x40;
	out.fwd = p[0] & 0x20;
	size_t hl;
	if (p[0] & 0x80) { out.tag = ((unsigned)(p[0] & 0x1f) << 8) | p[1]; hl = 4; out.force16 = out.tag <= 0x1f && fl - 4 <= 0xff; }
	else { out.tag = p[0] & 0x1f; hl = 2; }
	out.val.assign((const char *)p + hl, fl - hl);
	used = fl;
	return true;
}

bool Tlv::parse_all(const std::string &buf, std::vector<Tlv> &out) {
	size_t off = 0;
	out.clear();
	while (off < buf.size()) {
		Tlv t; size_t used;
		if (!parse1(buf, off, t, used)) return false;
		out.push_back(t);
		off += used;
	}
	return true;
}

bool Tlv::expand() {
	if (nested) return true;
	std::vector<Tlv> k;
	if (!parse_all(val, k)) return false;
	kids = std::move(k);
	nested = true;
	return true;
}

const Tlv *Tlv::find(unsigned t) const { for (auto &k : kids) if (k.tag == t) return &k; return nullptr; }
Tlv *Tlv::find(unsigned t) { for (auto &k : kids) if (k.tag == t) return &k; return nullptr; }
std::vector<const Tlv *> Tlv::all(unsigned t) const { std::vector<const Tlv *> r; for (auto &k : kids) if (k.tag == t) r.push_back(&k); return r; }

bool Tlv::as_u64(uint64_t &v) const {
	if (nested || val.size() > 8) return false;
	v = 0;
	for (unsigned char c : val) v = (v << 8) | c;
	return true;
}

std::string Tlv::as_str() const {
	std::string s = val;
	if (!s.empty() && s.back() == '\0') s.pop_back();
	return s;
}

std::string hex(const std::string &s) {
	static const char *d = "0123456789abcdef";
	std::string r;
	for (unsigned char c : s) { r += d[c >> 4]; r += d[c & 15]; }
	return r;
}

std::string unhex(const std::string &s) {
	std::string r;
	auto v = [](char c) { return c >= '0' && c <= '9' ? c - '0' : c >= 'a' && c <= 'f' ? c - 'a' + 10 : c >= 'A' && c <= 'F' ? c - 'A' + 10 : 0; };
	for (size_t i = 0; i + 1 < s.size(); i += 2) r.push_back((char)(v(s[i]) * 16 + v(s[i + 1])));
	return r;
}

} // namespace ref
