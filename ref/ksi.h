// Reference KSI primitives: hashing, HMAC, aggregation / calendar chain arithmetic, sparse calendar.
// Independent of libksi (shares only OpenSSL's hash primitives).
#pragma once
#include "ref/tlv.h"
#include <map>

namespace ref {

int hash_len(int alg);                                        // 0 = unknown algorithm
std::string digest(int alg, const std::string &data);
std::string imprint(int alg, const std::string &data);        // alg byte || digest
std::string hmac_imprint(int alg, const std::string &key, const std::string &data);

struct Link {
	bool left = true;          // tag 0x07: running hash is the left operand
	uint64_t lc = 0;           // level correction (aggregation chains only)
	int kind = 0;              // 0 = sibling imprint, 1 = legacy id, 2 = metadata
	std::string sib;           // imprint bytes / 29 legacy-id bytes / encoded metadata payload
	Tlv enc(bool calendar) const;
};

struct AggChain {
	uint64_t time = 0;
	std::vector<uint64_t> index;
	std::string input;         // imprint
	int alg = 1;
	std::vector<Link> links;
	Tlv enc() const;
	uint64_t shape() const;
};

// step: H_alg(left || right || level), level = prev + lc + 1; false if a level leaves 0..255 or lc > 255
bool fold_agg(const AggChain &c, int start_level, std::string &out, int &end_level);

struct CalChain {
	uint64_t pub = 0, agg = 0;
	bool has_agg = true;
	std::string input;         // imprint
	std::vector<Link> links;
	Tlv enc() const;
	std::string fold() const;                       // root imprint
	bool derive_time(uint64_t &t) const;            // registration time from shape + pub; false = impossible shape
};

uint64_t high_bit(uint64_t v);

// Sparse Merkle calendar: leaf t = round root at second t (default leaf otherwise).
struct Calendar {
	std::map<uint64_t, std::string> leaves;
	std::string dflt;
	std::vector<std::string> zero;               // zero[h] = root of an all-default perfect subtree of height h
	Calendar();
	void set_leaf(uint64_t t, const std::string &imp) { leaves[t] = imp; }
	std::string leaf(uint64_t t) const;
	std::string root(uint64_t p) const;          // root of the tree over leaves 0..p
	CalChain chain(uint64_t t, uint64_t p) const; // t <= p
private:
	std::string node(uint64_t lo, uint64_t r) const; // subtree over leaves lo..lo+r
	bool any(uint64_t lo, uint64_t hi) const;
};

std::string legacy_id(const std::string &name);
// payload with optional machine id, sequence number and request time (-1 = absent), padded the way the SDK pads
std::string metadata_payload_full(const std::string &client_id, const std::string &machine_id, int64_t seq, int64_t req_time);
std::string metadata_payload(const std::string &client_id, bool padded);

// ---- parsed views used by RefVerify
struct SigView {
	bool ok = false;
	std::vector<AggChain> agg;
	bool has_cal = false; CalChain cal;
	bool has_pub = false; uint64_t pub_time = 0; std::string pub_hash;     // publication record
	bool has_auth = false; uint64_t auth_time = 0; std::string auth_hash;  // calendar auth record published data
	std::string auth_sig, auth_certid, auth_signed_bytes;
	bool has_rfc3161 = false;
	std::vector<std::string> agg_raw;            // encoded aggregation chain TLVs as found
	std::string cal_raw, pub_raw, auth_raw;
};
bool parse_signature(const std::string &bytes, SigView &v);
bool parse_agg_chain(const Tlv &t, AggChain &c, bool partial = false);
bool parse_cal_chain(const Tlv &t, CalChain &c);

struct SigFacts {
	bool consistent = false;    // chains link up, indices, times, calendar agrees (subset of INT rules needed here)
	std::string input_hash; uint64_t first_lc = 0;
	std::string agg_root; int agg_root_level = 0; uint64_t agg_time = 0;
	std::string cal_root; uint64_t cal_pub_time = 0;
	std::string why;
};
SigFacts evaluate(const SigView &v);

} // namespace ref
