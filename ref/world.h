// Reference KSI world: request parsing, response classification, and the reply factory (honest + adversarial)
// of the reference aggregator / extender.  Independent of libksi.
#pragma once
#include "ref/ksi.h"
#include <functional>

namespace ref {

enum Behav {
	B_HONEST = 0,
	B_FOREIGN_ID,         // an id nobody is waiting for
	B_STALE_GEN,          // same cache slot, other generation
	B_OTHER_HASH,         // aggregation chains for another input hash
	B_BROKEN_LINK,        // second chain does not continue the first
	B_LC_256,             // level correction 256
	B_LC_2P32,            // level correction 2^32
	B_LOW_LEVEL,          // first level correction below the requested level
	B_WRONG_AGG_TIME,     // aggr: chains disagree on the time; ext: calendar chain for another aggregation time
	B_WRONG_PUB_TIME,     // ext: chain to another publication time than requested
	B_BAD_SHAPE,          // calendar shape inconsistent with its times
	B_OTHER_INPUT,        // ext: calendar chain with another input hash
	B_ALTERED_RIGHT_LINK, // ext: one right link changed
	B_STATUS_ERR,         // non-zero status for the request id
	B_ERROR_PDU,          // error PDU without request id
	B_BAD_MAC,            // digest altered
	B_OTHER_KEY,          // MAC under another key
	B_OTHER_ALG,          // MAC under another (trusted) algorithm than configured
	B_OTHER_VER,          // framed as the other PDU version
	B_NO_HEADER,
	B_NO_MAC,
	B_TRUNCATED,          // frame claims more bytes than follow before the next PDU starts
	B_GARBAGE_PDU,        // well-framed TLV with an unrelated tag
	B_CONF_ONLY,          // configuration push alone
	B_WITH_CONF,          // honest reply with a piggy-backed configuration
	B_NO_CAL,             // aggr: status 0 but no calendar chain (still a valid response object)
	B_INDEX_GAP,          // aggr: a lower chain's index is two or more elements longer than the next chain's
	B_INDEX_SHORT,        // aggr: a lower chain's index is not longer than the next chain's
	B_INDEX_PREFIX,       // aggr: a lower chain's index does not start with the next chain's index
	B_INDEX_SHAPE,        // aggr: the last index element of a chain does not describe its link shape
	B_STATUS_CONTENT,     // non-zero status (ordinary codes and multiples of 2^32) on a reply that otherwise carries honest content
	B_EXTRA_LINKS,        // ext: surplus right links at the input end / surplus left links at the far end of a genuine chain
	B_NO_AGG_TIME,        // ext: genuine chain without the optional aggregation-time element (absent means "equal to the publication time")
	B_RESP_PLUS_ERROR,    // version 2: an authentic PDU that carries the honest response payload and an error payload
	B_V1_REFLECT,         // version 1: the client's own header, request and MAC with an (uncovered) response payload spliced in
	B_PUB_SHIFTED_NO_AGG, // ext: the genuine chain's links and input, no aggregation-time element, and another publication time (stands for another second)
	B_METADATA_IMPRINT_LIKE, // aggr: one link carries an unpadded metadata record of 33 octets that starts with 0x01 (could be read as a SHA-256 imprint)
	B_LONG_IMPRINT,       // aggr: one sibling imprint is eight octets longer than its algorithm's digest (the chain is folded over those bytes, so everything else is consistent)
	B_LEGACY_ID_UNTERMINATED, // aggr: a legacy-id link whose octet right after the declared name is not zero
	B__COUNT
};
const char *behav_name(int b);

struct EndpointCfg {
	std::string key = "anon";
	std::string login = "anon";   // login id the client is expected to use
	int mac_alg = 1;              // algorithm the server uses for response MACs
	int pdu_ver = 2;
	bool extender = false;
};

struct ReqInfo {
	bool framed = false;          // one complete TLV
	int ver = 0;                  // 1 / 2
	bool is_ext = false;
	bool has_header = false, has_mac = false, mac_last = false, header_first = false;
	int mac_alg = -1;
	bool mac_ok = false;          // under the endpoint key over the authenticated range
	std::string login; uint64_t inst = 0, msg = 0; bool has_inst = false, has_msg = false;
	bool has_req = false; uint64_t id = 0; bool has_id = false;
	std::string hash; bool has_hash = false;
	uint64_t level = 0; bool has_level = false;
	bool has_conf_req = false;
	uint64_t agg_time = 0; bool has_agg_time = false;
	uint64_t pub_time = 0; bool has_pub_time = false;
	std::string raw;
};
// key: the key the endpoint shares with the client
bool parse_request(const std::string &pdu, const std::string &key, ReqInfo &r);

struct ConfVals {   // 0 = absent
	uint64_t max_level = 0, aggr_alg = 0, aggr_period = 0, max_requests = 0, cal_first = 0, cal_last = 0;
	bool has_alg = false;
	std::vector<std::string> parents;
	bool any() const { return max_level || has_alg || aggr_period || max_requests || cal_first || cal_last || !parents.empty(); }
};

struct RespInfo {
	bool framed = false;
	int ver = 0; bool is_ext = false; bool known_tag = false;
	bool has_header = false, has_mac = false;
	int mac_alg = -1; bool mac_ok = false;
	bool has_resp = false; uint64_t id = 0; bool has_id = false; uint64_t status = 0;
	bool has_error = false; uint64_t err_status = 0;
	bool has_conf = false; ConfVals conf;
	bool has_chains = false; std::string first_input; bool has_cal = false;
	uint64_t cal_pub = 0, cal_agg = 0; std::string cal_input; bool cal_shape_ok = false;
	std::string payload_digest;   // digest of the response payload TLV (content identity)
	std::vector<std::string> chain_encs; std::string cal_enc; // encoded 0x0801 / 0x0802 elements of the response
	bool malformed_imprint = false;   // an aggregation chain of the payload carries an imprint of the wrong length
	bool authentic(int cfg_alg) const { return framed && known_tag && has_header && has_mac && mac_ok && mac_alg == cfg_alg; }
};
bool classify_response(const std::string &pdu, const std::string &key, RespInfo &r);

struct ReplyMeta {
	int behav = B_HONEST;
	bool honest = false;          // by construction: authentic, status 0, this request's id, chains valid for this request
	uint64_t id = 0;
	uint64_t agg_time = 0, pub_time = 0;
	std::string input_hash, agg_root, cal_root;
	int round_level = 0;
};

struct World {
	Calendar cal;
	uint64_t next_round = 1500000000;    // aggregation times are unique and increasing
	uint64_t head() const { return next_round ? next_round - 1 : 0; } // calendar head (last round so far)
	// optional: signs published data for calendar authentication records (set up by the PKI fixture)
	std::function<bool(const std::string &signed_bytes, std::string &sig, std::string &cert_id)> pki_sign;
	bool with_auth_record = false;
	// when non-zero, version-2 response PDUs are padded with an unknown non-critical, forward-flagged element so that the
	// whole PDU has exactly this many bytes (the largest legal PDU is 65535 + 4 bytes)
	size_t pad_total = 0;
	// when >= 0, make_signature appends an unknown non-critical, forward-flagged element with this many payload bytes to the
	// signature (254 / 255 / 256 sit on the boundary between the short and the long TLV header)
	int sig_extra_len = -1;

	std::string aggr_reply(const ReqInfo &rq, const EndpointCfg &ep, int behav, uint64_t subseed, ReplyMeta &meta);
	std::string ext_reply(const ReqInfo &rq, const EndpointCfg &ep, int behav, uint64_t subseed, ReplyMeta &meta);
	std::string conf_push(const EndpointCfg &ep, const ConfVals &cv);
	std::string error_pdu(const EndpointCfg &ep, uint64_t status, const std::string &msg);
	// assemble + MAC a response PDU from payload TLVs (each already encoded)
	std::string seal(const EndpointCfg &ep, bool response, const std::vector<Tlv> &payload, int behav, uint64_t subseed);
	// signature bytes (0x0800) for a request, as the SDK should assemble them from an honest reply
	std::string make_signature(const std::string &hash, uint64_t level, uint64_t subseed, bool with_cal, ReplyMeta &meta, int nchains = 0);
private:
	std::vector<AggChain> build_chains(const std::string &hash, uint64_t level, uint64_t t, uint64_t subseed, int behav, std::string &root, int &root_level, int nchains = 0, int start_level = 0);
};

Tlv conf_tlv(unsigned tag, const ConfVals &cv, bool extender);

} // namespace ref
