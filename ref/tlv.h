// RefTlv: independent TLV8/TLV16 codec (shares nothing with libksi).
#pragma once
#include <cstdint>
#include <string>
#include <vector>

namespace ref {

struct Tlv {
	unsigned tag = 0;
	bool nc = false;    // non-critical
	bool fwd = false;   // forward
	bool force16 = false;
	bool nested = false;
	std::string val;            // payload when !nested
	std::vector<Tlv> kids;      // children when nested

	static Tlv raw(unsigned tag, const std::string &bytes);
	static Tlv u64(unsigned tag, uint64_t v);
	static Tlv str(unsigned tag, const std::string &s);   // NUL-terminated on the wire
	static Tlv nest(unsigned tag, std::vector<Tlv> kids);
	Tlv &add(const Tlv &k) { nested = true; kids.push_back(k); return *this; }
	Tlv &flags(bool nc_, bool fwd_) { nc = nc_; fwd = fwd_; return *this; }

	std::string payload() const;          // encoded payload
	std::string enc() const;              // header + payload
	bool ok_size() const { return payload().size() <= 0xffff; }

	// decoding
	static bool parse1(const std::string &buf, size_t off, Tlv &out, size_t &used); // one element, not expanded
	static bool parse_all(const std::string &buf, std::vector<Tlv> &out);           // sequence tiling buf exactly
	bool expand();                                                                   // parse val into kids (one level)
	const Tlv *find(unsigned tag) const;
	Tlv *find(unsigned tag);
	std::vector<const Tlv *> all(unsigned tag) const;
	bool as_u64(uint64_t &v) const;
	uint64_t u64_or(uint64_t dflt) const { uint64_t v; return as_u64(v) ? v : dflt; }
	std::string as_str() const; // without the trailing NUL
};

// frame length of the TLV starting at buf[off] (0 if the header itself is incomplete)
size_t frame_len(const std::string &buf, size_t off);
size_t frame_len(const unsigned char *p, size_t n);

std::string be64min(uint64_t v);
std::string hex(const std::string &s);
std::string unhex(const std::string &s);

} // namespace ref
