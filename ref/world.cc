#include "ref/world.h"
#include "sim/kernel.h"
#include <algorithm>

namespace ref {

using sim::Rng;

const char *behav_name(int b) {
	static const char *n[] = {"honest", "foreign-id", "stale-gen", "other-hash", "broken-link", "lc-256", "lc-2^32", "low-level",
		"wrong-agg-time", "wrong-pub-time", "bad-shape", "other-input", "altered-right-link", "status-err", "error-pdu",
		"bad-mac", "other-key", "other-alg", "other-ver", "no-header", "no-mac", "truncated", "garbage-pdu", "conf-only",
		"with-conf", "no-cal", "index-gap", "index-short", "index-prefix", "index-shape", "status-with-content", "extra-links", "no-agg-time", "response-plus-error", "v1-reflected-request", "pub-shifted-no-agg-time", "metadata-imprint-like", "over-long-imprint", "legacy-id-unterminated"};
	return (b >= 0 && b < B__COUNT) ? n[b] : "?";
}

static bool mac_check(const std::string &range, const std::string &key, const std::string &mac_val, int &alg, bool &ok) {
	if (mac_val.empty()) return false;
	alg = (unsigned char)mac_val[0];
	int hl = hash_len(alg);
	if (hl == 0 || (int)mac_val.size() != hl + 1) { ok = false; return true; }
	std::string want = hmac_imprint(alg, key, range);
	ok = !want.empty() && want == mac_val;
	return true;
}

bool parse_request(const std::string &pdu, const std::string &key, ReqInfo &r) {
	r = ReqInfo();
	r.raw = pdu;
	Tlv top; size_t used;
	if (!Tlv::parse1(pdu, 0, top, used) || used != pdu.size()) return false;
	r.framed = true;
	if (top.tag == 0x220 || top.tag == 0x320) r.ver = 2;
	else if (top.tag == 0x200 || top.tag == 0x300) r.ver = 1;
	else return false;
	r.is_ext = (top.tag & 0xf00) == 0x300;
	if (!top.expand()) return false;
	const Tlv *hdr = nullptr, *req = nullptr, *mac = nullptr;
	unsigned req_tag = r.ver == 2 ? 0x02 : (r.is_ext ? 0x301 : 0x201);
	for (size_t i = 0; i < top.kids.size(); i++) {
		const Tlv &k = top.kids[i];
		if (k.tag == 0x01) { hdr = &k; r.header_first = i == 0; }
		else if (k.tag == req_tag) req = &k;
		else if (k.tag == 0x1f) { mac = &k; r.mac_last = i + 1 == top.kids.size(); }
		else if (r.ver == 2 && k.tag == 0x04) r.has_conf_req = true;
	}
	if (hdr) {
		r.has_header = true;
		Tlv h = *hdr;
		if (h.expand()) {
			if (const Tlv *l = h.find(0x01)) r.login = l->as_str();
			if (const Tlv *i = h.find(0x02)) { r.inst = i->u64_or(0); r.has_inst = true; }
			if (const Tlv *m = h.find(0x03)) { r.msg = m->u64_or(0); r.has_msg = true; }
		}
	}
	if (req) {
		r.has_req = true;
		Tlv q = *req;
		if (q.expand()) {
			if (const Tlv *i = q.find(0x01)) { r.id = i->u64_or(0); r.has_id = true; }
			if (!r.is_ext) {
				if (const Tlv *h = q.find(0x02)) { r.hash = h->val; r.has_hash = true; }
				if (const Tlv *l = q.find(0x03)) { r.level = l->u64_or(0); r.has_level = true; }
				if (r.ver == 1 && q.find(0x10)) r.has_conf_req = true;
			} else {
				if (const Tlv *a = q.find(0x02)) { r.agg_time = a->u64_or(0); r.has_agg_time = true; }
				if (const Tlv *p = q.find(0x03)) { r.pub_time = p->u64_or(0); r.has_pub_time = true; }
				if (r.ver == 1 && q.find(0x10)) r.has_conf_req = true;
			}
		}
	}
	if (mac) {
		r.has_mac = true;
		std::string range;
		if (r.ver == 2) {
			int hl = mac->val.empty() ? 0 : hash_len((unsigned char)mac->val[0]);
			if (r.mac_last && hl && pdu.size() > (size_t)hl) range = pdu.substr(0, pdu.size() - hl);
		} else if (hdr && req) {
			range = hdr->enc() + req->enc();
		}
		mac_check(range, key, mac->val, r.mac_alg, r.mac_ok);
		if (r.ver == 2 && !r.mac_last) r.mac_ok = false;
	}
	return true;
}

static void read_conf(const Tlv &c, bool ext, ConfVals &cv) {
	Tlv t = c;
	if (!t.expand()) return;
	for (auto &k : t.kids) {
		if (!ext) {
			if (k.tag == 0x01) cv.max_level = k.u64_or(0);
			else if (k.tag == 0x02) { cv.aggr_alg = k.u64_or(0); cv.has_alg = true; }
			else if (k.tag == 0x03) cv.aggr_period = k.u64_or(0);
			else if (k.tag == 0x04) cv.max_requests = k.u64_or(0);
			else if (k.tag == 0x10) cv.parents.push_back(k.as_str());
		} else {
			if (k.tag == 0x04) cv.max_requests = k.u64_or(0);
			else if (k.tag == 0x10) cv.parents.push_back(k.as_str());
			else if (k.tag == 0x11) cv.cal_first = k.u64_or(0);
			else if (k.tag == 0x12) cv.cal_last = k.u64_or(0);
		}
	}
}

bool classify_response(const std::string &pdu, const std::string &key, RespInfo &r) {
	r = RespInfo();
	Tlv top; size_t used;
	if (!Tlv::parse1(pdu, 0, top, used) || used != pdu.size()) return false;
	r.framed = true;
	if (top.tag == 0x221 || top.tag == 0x321) r.ver = 2;
	else if (top.tag == 0x200 || top.tag == 0x300) r.ver = 1;
	else return true;
	r.known_tag = true;
	r.is_ext = (top.tag & 0xf00) == 0x300;
	if (!top.expand()) { r.known_tag = false; return true; }
	unsigned resp_tag = r.ver == 2 ? 0x02 : (r.is_ext ? 0x302 : 0x202);
	unsigned err_tag = r.ver == 2 ? 0x03 : (r.is_ext ? 0x303 : 0x203);
	const Tlv *hdr = nullptr, *resp = nullptr, *mac = nullptr;
	bool mac_last = false;
	for (size_t i = 0; i < top.kids.size(); i++) {
		const Tlv &k = top.kids[i];
		if (k.tag == 0x01) hdr = &k;
		else if (k.tag == resp_tag) resp = &k;
		else if (k.tag == err_tag) {
			r.has_error = true;
			Tlv e = k;
			if (e.expand()) if (const Tlv *s = e.find(0x04)) r.err_status = s->u64_or(0);
		}
		else if (r.ver == 2 && k.tag == 0x04) { r.has_conf = true; read_conf(k, r.is_ext, r.conf); }
		else if (k.tag == 0x1f) { mac = &k; mac_last = i + 1 == top.kids.size(); }
	}
	r.has_header = hdr != nullptr;
	if (resp) {
		r.has_resp = true;
		r.payload_digest = digest(1, resp->enc());
		Tlv q = *resp;
		if (q.expand()) {
			if (const Tlv *i = q.find(0x01)) { r.id = i->u64_or(0); r.has_id = true; }
			if (const Tlv *s = q.find(0x04)) r.status = s->u64_or(0);
			if (r.ver == 1) if (const Tlv *c = q.find(0x10)) { r.has_conf = true; read_conf(*c, r.is_ext, r.conf); }
			auto chains = q.all(0x0801);
			if (!chains.empty()) {
				r.has_chains = true;
				// the lowest chain is the one with the longest index
				size_t best = 0; std::string in;
				for (auto *c : chains) {
					r.chain_encs.push_back(c->enc());
					AggChain a;
					if (!parse_agg_chain(*c, a)) continue;
					if (a.index.size() >= best) { best = a.index.size(); in = a.input; }
					// an imprint that does not have the length of its algorithm's digest makes the whole PDU unparsable for a client
					auto badimp = [](const std::string &x) { return x.empty() || hash_len((unsigned char)x[0]) == 0 || (size_t)hash_len((unsigned char)x[0]) + 1 != x.size(); };
					if (badimp(a.input)) r.malformed_imprint = true;
					for (auto &l : a.links) if (l.kind == 0 && badimp(l.sib)) r.malformed_imprint = true;
					// (the same holds for a legacy id that breaks its fixed format)
					for (auto &l : a.links) if (l.kind == 1) {
						const std::string &x = l.sib;
						bool okid = x.size() == 29 && x[0] == 0x03 && x[1] == 0x00 && (unsigned char)x[2] <= 25;
						if (okid) for (size_t k = 3 + (unsigned char)x[2]; k < 29; k++) if (x[k] != 0) okid = false;
						if (!okid) r.malformed_imprint = true;
					}
				}
				r.first_input = in;
			}
			if (const Tlv *c = q.find(0x0802)) {
				r.cal_enc = c->enc();
				CalChain cc;
				if (parse_cal_chain(*c, cc)) { r.has_cal = true; r.cal_pub = cc.pub; r.cal_agg = cc.agg; r.cal_input = cc.input; uint64_t dt; r.cal_shape_ok = cc.derive_time(dt) && dt == cc.agg; }
			}
		}
	}
	if (mac) {
		r.has_mac = true;
		std::string range;
		if (r.ver == 2) {
			int hl = mac->val.empty() ? 0 : hash_len((unsigned char)mac->val[0]);
			if (mac_last && hl && pdu.size() > (size_t)hl) range = pdu.substr(0, pdu.size() - hl);
		} else if (hdr && resp) {
			range = hdr->enc() + resp->enc();
		}
		mac_check(range, key, mac->val, r.mac_alg, r.mac_ok);
		if (r.ver == 2 && !mac_last) r.mac_ok = false;
	}
	return true;
}

Tlv conf_tlv(unsigned tag, const ConfVals &cv, bool extender) {
	Tlv c = Tlv::nest(tag, {});
	if (!extender) {
		if (cv.max_level) c.add(Tlv::u64(0x01, cv.max_level));
		if (cv.has_alg) c.add(Tlv::u64(0x02, cv.aggr_alg));
		if (cv.aggr_period) c.add(Tlv::u64(0x03, cv.aggr_period));
		if (cv.max_requests) c.add(Tlv::u64(0x04, cv.max_requests));
		for (auto &p : cv.parents) c.add(Tlv::str(0x10, p));
	} else {
		if (cv.max_requests) c.add(Tlv::u64(0x04, cv.max_requests));
		for (auto &p : cv.parents) c.add(Tlv::str(0x10, p));
		if (cv.cal_first) c.add(Tlv::u64(0x11, cv.cal_first));
		if (cv.cal_last) c.add(Tlv::u64(0x12, cv.cal_last));
	}
	return c;
}

std::string World::seal(const EndpointCfg &ep, bool response, const std::vector<Tlv> &payload_in, int behav, uint64_t subseed) {
	Rng rng(sim::mix(subseed, 0x5ea1));
	int ver = ep.pdu_ver;
	if (behav == B_OTHER_VER) ver = ver == 2 ? 1 : 2;
	std::string key = ep.key;
	int alg = ep.mac_alg;
	if (behav == B_OTHER_KEY) key += "-not";
	if (behav == B_OTHER_ALG) alg = alg == 1 ? 5 : 1;
	Tlv hdr = Tlv::nest(0x01, {Tlv::str(0x01, "refsrv"), Tlv::u64(0x02, 7), Tlv::u64(0x03, subseed & 0xffff)});
	unsigned base = ep.extender ? 0x300 : 0x200;
	std::vector<Tlv> payload = payload_in;
	std::string out;
	if (ver == 2) {
		Tlv top = Tlv::nest(base + (response ? 0x21 : 0x20), {});
		if (behav != B_NO_HEADER) top.add(hdr);
		for (auto &p : payload) top.add(p);
		if (pad_total && response) {
			// measure without padding, then add an element of the missing size (TLV16 header = 4 bytes)
			Tlv probe = top;
			if (behav != B_NO_MAC) probe.add(Tlv::raw(0x1f, std::string(1 + hash_len(alg), '\0')));
			size_t have = probe.enc().size();
			if (have < 300) have += 0; // top is TLV16 anyway once padded
			size_t top_hdr = 4, cur_hdr = have > 257 ? 4 : 2;
			size_t body = have - cur_hdr;
			if (pad_total > body + top_hdr + 4) {
				size_t L = pad_total - body - top_hdr - 4;
				std::string fill(L, '\0');
				for (size_t i = 0; i < L; i++) fill[i] = (char)(0x80 | ((i * 37 + subseed) & 0x3f)); // looks like nothing: TLV-ish noise
				Tlv padel = Tlv::raw(0x1e, fill);
				padel.nc = true; padel.fwd = true; padel.force16 = true;
				top.add(padel);
			}
		}
		if (behav != B_NO_MAC) {
			int hl = hash_len(alg);
			top.add(Tlv::raw(0x1f, std::string(1, (char)alg) + std::string(hl, '\0')));
			std::string enc = top.enc();
			std::string range = enc.substr(0, enc.size() - hl);
			std::string mac = hmac_imprint(alg, key, range);
			enc.replace(enc.size() - hl, hl, mac.substr(1));
			if (behav == B_BAD_MAC) enc[enc.size() - 1 - rng.below(hl)] ^= (char)(1 << rng.below(8));
			out = enc;
		} else out = top.enc();
	} else {
		// version 1: one payload TLV (response or error); a configuration travels inside the response as 0x10
		Tlv pl;
		bool have = false;
		Tlv conf; bool have_conf = false;
		for (auto &p : payload) {
			if (p.tag == 0x02) { pl = p; pl.tag = base + 2; have = true; }
			else if (p.tag == 0x03) { pl = p; pl.tag = base + 3; have = true; }
			else if (p.tag == 0x04) {
				conf = p; conf.tag = 0x10; have_conf = true;
				// the version-1 configuration record knows max level, algorithm, period and (as 0x04) parent URIs only
				std::vector<Tlv> keep;
				for (auto &k : conf.kids) if (k.tag >= 0x01 && k.tag <= 0x03) keep.push_back(k);
				conf.kids = keep;
			}
		}
		if (!have) { pl = Tlv::nest(base + 2, {Tlv::u64(0x01, 0), Tlv::u64(0x04, 0)}); }
		if (have_conf && (pl.tag & 0xff) == 2 && !ep.extender) { // the version-1 extender response has no configuration field
			// v1 templates differ (KSI_Config: 0x01..0x04 / extender: none); keep the aggregator fields that exist in v1
			pl.add(conf);
		}
		// v1 extender response carries "last time" as 0x10; v2 as 0x12
		if (ep.extender && (pl.tag & 0xff) == 2) for (auto &k : pl.kids) if (k.tag == 0x12 && !k.nested) k.tag = 0x10;
		Tlv top = Tlv::nest(base, {});
		if (behav != B_NO_HEADER) top.add(hdr);
		top.add(pl);
		if (behav != B_NO_MAC) {
			std::string mac = hmac_imprint(alg, key, hdr.enc() + pl.enc());
			if (behav == B_BAD_MAC) mac[mac.size() - 1 - rng.below(mac.size() - 1)] ^= (char)(1 << rng.below(8));
			top.add(Tlv::raw(0x1f, mac));
		}
		out = top.enc();
	}
	return out;
}

std::vector<AggChain> World::build_chains(const std::string &hash, uint64_t level, uint64_t t, uint64_t subseed, int behav, std::string &root, int &root_level, int nchains, int start_level) {
	Rng rng(sim::mix(subseed, 0xc4a1));
	int n = nchains > 0 ? nchains : (int)rng.range(1, 3);
	if ((behav == B_BROKEN_LINK || behav == B_INDEX_GAP || behav == B_INDEX_SHORT || behav == B_INDEX_PREFIX) && n < 2) n = 2;
	std::vector<AggChain> cs(n);
	std::string cur = hash;
	int lvl = start_level;
	if (behav == B_LOW_LEVEL && start_level > 0) lvl = start_level - 1;
	for (int i = 0; i < n; i++) {
		AggChain &c = cs[i];
		c.time = t;
		c.alg = rng.chance(1, 6) ? 5 : 1;
		c.input = cur;
		int nl = (int)rng.range(1, 4);
		for (int j = 0; j < nl; j++) {
			Link l;
			l.left = rng.chance(1, 2);
			l.lc = rng.chance(1, 3) ? rng.range(1, 2) : 0;
			if (i == 0 && j == 0) {
				l.lc = level + (rng.chance(1, 3) ? rng.range(1, 2) : 0);
			}
			int kind = (int)rng.below(8);
			if (kind == 0 && !(i == 0 && j == 0)) { l.kind = 1; l.sib = legacy_id("GT :: ref :: " + std::to_string(rng.below(1000))); }
			else if (kind == 1) { l.kind = 2; l.sib = metadata_payload("client-" + std::to_string(rng.below(1000)), true); }
			else { l.kind = 0; l.sib = imprint(rng.chance(1, 5) ? 5 : 1, "sib" + std::to_string(rng.next())); }
			if (behav == B_METADATA_IMPRINT_LIKE && i == n - 1 && j == nl - 1) { l.kind = 2; l.sib = metadata_payload(std::string(30, 'c'), false); }
			if (behav == B_LEGACY_ID_UNTERMINATED && i == n - 1 && j == nl - 1 && !(i == 0 && j == 0)) { l.kind = 1; l.sib = legacy_id("GT :: ref"); l.sib[3 + 9] = 'x'; }
			if (behav == B_LONG_IMPRINT && i == n - 1 && j == nl - 1) { l.kind = 0; l.sib = imprint(1, "long sib" + std::to_string(subseed)) + std::string(8, '\x5a'); }
			c.links.push_back(l);
		}
		if ((behav == B_LC_256 || behav == B_LC_2P32) && i == n - 1) {
			Link &l = c.links.back();
			l.lc = behav == B_LC_256 ? 256 : (1ULL << 32);
		}
		// fold; out-of-range corrections are folded the way a truncating implementation would see them
		std::string acc = c.input;
		for (auto &l : c.links) {
			uint64_t step = (behav == B_LC_2P32) ? (l.lc & 0xffffffffULL) : l.lc;
			lvl += (int)(step & 0x7fffffff) + 1;
			std::string d = l.left ? acc + l.sib : l.sib + acc;
			d.push_back((char)(lvl & 0xff));
			acc = imprint(c.alg, d);
		}
		cur = acc;
	}
	if (behav == B_OTHER_HASH) {
		// a perfectly valid chain set, but for another document
		std::string other = imprint(1, "another document " + std::to_string(subseed));
		return build_chains(other, level, t, subseed ^ 0x77, B_HONEST, root, root_level, n, start_level);
	}
	if (behav == B_BROKEN_LINK) cs[1].input = imprint(1, "broken" + std::to_string(subseed));
	if (behav == B_WRONG_AGG_TIME) cs.back().time = t + 1;
	// indices: top chain has one element, each lower chain appends its own shape
	std::vector<uint64_t> idx;
	for (int i = n - 1; i >= 0; i--) { idx.push_back(cs[i].shape()); cs[i].index = idx; }
	if (behav == B_INDEX_GAP || behav == B_INDEX_SHORT || behav == B_INDEX_PREFIX) {
		// deviations of the chain-index continuation between chain k (lower) and chain k+1; hashes still link up
		int k = (int)rng.below((uint64_t)n - 1);
		std::vector<uint64_t> up = cs[k + 1].index;
		uint64_t own = cs[k].shape();
		if (behav == B_INDEX_GAP) { for (uint64_t e = 0, m = 1 + rng.below(2); e < m; e++) up.push_back(2 + rng.below(30)); up.push_back(own); }
		else if (behav == B_INDEX_SHORT) { if (rng.chance(1, 2) && up.size() > 1) up.pop_back(); up.back() = own; }
		else { up[rng.below(up.size())] ^= 1 + rng.below(6); up.push_back(own); }
		for (int j = k; j >= 0; j--) {
			if (j == k) cs[j].index = up;
			else { cs[j].index = cs[j + 1].index; cs[j].index.push_back(cs[j].shape()); }
		}
	}
	if (behav == B_INDEX_SHAPE) { AggChain &c = cs[rng.below((uint64_t)n)]; c.index.back() ^= 1 + rng.below(3); if (c.index.back() == 0) c.index.back() = 5; }
	root = cur;
	root_level = lvl;
	return cs;
}

static Tlv auth_record(World &w, uint64_t p, const std::string &root) {
	Tlv pd = Tlv::nest(0x10, {Tlv::u64(0x02, p), Tlv::raw(0x04, root)});
	std::string sig = "not-a-signature", cid = "\x01\x02\x03\x04";
	if (w.pki_sign) w.pki_sign(pd.enc(), sig, cid);
	Tlv sd = Tlv::nest(0x0b, {Tlv::str(0x01, "1.2.840.113549.1.1.11"), Tlv::raw(0x02, sig), Tlv::raw(0x03, cid)});
	return Tlv::nest(0x0805, {pd, sd});
}

std::string World::make_signature(const std::string &hash, uint64_t level, uint64_t subseed, bool with_cal, ReplyMeta &meta, int nchains) {
	Rng rng(sim::mix(subseed, 0x51e));
	uint64_t t = next_round;
	std::string root; int rl;
	auto cs = build_chains(hash, level, t, subseed, B_HONEST, root, rl, nchains);
	cal.set_leaf(t, root);
	uint64_t p = t + rng.below(3);
	next_round = p + 1;
	Tlv sig = Tlv::nest(0x0800, {});
	for (auto &c : cs) sig.add(c.enc());
	meta.behav = B_HONEST; meta.honest = true; meta.agg_time = t; meta.pub_time = p; meta.input_hash = hash; meta.agg_root = root; meta.round_level = rl;
	if (with_cal) {
		CalChain cc = cal.chain(t, p);
		sig.add(cc.enc());
		meta.cal_root = cc.fold();
		if (with_auth_record) sig.add(auth_record(*this, p, meta.cal_root));
	}
	if (sig_extra_len >= 0) {
		std::string fill((size_t)sig_extra_len, '\0');
		for (size_t i = 0; i < fill.size(); i++) fill[i] = (char)(0x30 + (i * 11 + subseed) % 64);
		Tlv x = Tlv::raw(0x1d, fill);
		x.nc = true; x.fwd = true;
		sig.add(x);
	}
	return sig.enc();
}

// version 1 only: {the client's header, the client's request, a response payload, the client's MAC}. The MAC covers header and request
// (it is the client's own), the response payload is covered by nothing.
static bool v1_reflect(const ReqInfo &rq, const EndpointCfg &ep, const Tlv &resp, std::string &out) {
	if (ep.pdu_ver != 1 || rq.raw.empty()) return false;
	Tlv top; size_t used;
	if (!Tlv::parse1(rq.raw, 0, top, used) || !top.expand()) return false;
	unsigned base = ep.extender ? 0x300 : 0x200;
	const Tlv *hdr = top.find(0x01), *req = top.find(base + 1), *mac = top.find(0x1f);
	if (!hdr || !req || !mac) return false;
	Tlv pl = resp; pl.tag = base + 2;
	if (ep.extender) for (auto &k : pl.kids) if (k.tag == 0x12 && !k.nested) k.tag = 0x10;
	out = Tlv::nest(base, {*hdr, *req, pl, *mac}).enc();
	return true;
}

std::string World::aggr_reply(const ReqInfo &rq, const EndpointCfg &ep, int behav, uint64_t subseed, ReplyMeta &meta) {
	Rng rng(sim::mix(subseed, 0xa66));
	if (behav == B_EXTRA_LINKS || behav == B_NO_AGG_TIME || behav == B_PUB_SHIFTED_NO_AGG) behav = B_HONEST; // calendar-chain deviations of the extender
	meta = ReplyMeta();
	meta.behav = behav;
	uint64_t id = rq.id;
	if (behav == B_FOREIGN_ID) id = rq.id + 0x1000 + rng.below(1000);
	if (behav == B_STALE_GEN) id = rq.id ^ (((uint64_t)1 + rng.below(200)) << 32);
	meta.id = id;
	if (behav == B_ERROR_PDU) return error_pdu(ep, 0x0101 + rng.below(3), "ref error pdu");
	if (behav == B_CONF_ONLY) { ConfVals cv; cv.max_level = 17; cv.aggr_period = 1000; cv.max_requests = 100; return conf_push(ep, cv); }
	if (behav == B_GARBAGE_PDU) return Tlv::nest(0x0777, {Tlv::str(0x01, "garbage")}).enc();
	Tlv resp = Tlv::nest(0x02, {Tlv::u64(0x01, id)});
	if (behav == B_STATUS_ERR) {
		static const uint64_t codes[] = {0x0101, 0x0102, 0x0103, 0x0104, 0x0105, 0x0106, 0x0107, 0x0200, 0x0300, 0x0301, 0x0999};
		resp.add(Tlv::u64(0x04, codes[rng.below(11)]));
		resp.add(Tlv::str(0x05, "ref status error"));
		return seal(ep, true, {resp}, behav, subseed);
	}
	static const uint64_t odd_status[] = {0x100000000ULL, 0xffffffff00000000ULL, 0x8000000000000000ULL, 0x0101, 0x0300, 0x200000000ULL};
	resp.add(Tlv::u64(0x04, behav == B_STATUS_CONTENT ? odd_status[rng.below(6)] : 0));
	uint64_t t = next_round;
	std::string root; int rl;
	std::string hash = rq.hash;
	int req_level = (int)std::min<uint64_t>(rq.has_level ? rq.level : 0, 255);
	auto cs = build_chains(hash, 0, t, subseed, behav, root, rl, 0, req_level);
	bool in_range = true;
	if (behav == B_HONEST || behav == B_WITH_CONF || behav == B_NO_CAL || behav == B_STATUS_CONTENT) {
		// a request whose level leaves no room for the tree above it cannot be served honestly
		std::string o; int el = 0, lv = req_level;
		for (auto &c : cs) { if (!fold_agg(c, lv, o, el)) { in_range = false; break; } lv = el; }
	}
	if (!in_range) {
		Tlv er = Tlv::nest(0x02, {Tlv::u64(0x01, id), Tlv::u64(0x04, 0x0104), Tlv::str(0x05, "level too large")});
		meta.behav = B_STATUS_ERR;
		return seal(ep, true, {er}, B_HONEST, subseed);
	}
	cal.set_leaf(t, root);
	uint64_t p = t + rng.below(2);
	next_round = p + 1;
	for (auto &c : cs) resp.add(c.enc());
	CalChain cc = cal.chain(t, p);
	if (behav == B_BAD_SHAPE && !cc.links.empty()) { size_t k = rng.below(cc.links.size()); cc.links[k].left = !cc.links[k].left; }
	if (behav != B_NO_CAL) resp.add(cc.enc());
	meta.agg_time = t; meta.pub_time = p; meta.input_hash = hash; meta.agg_root = root; meta.round_level = rl; meta.cal_root = cc.fold();
	if (with_auth_record && behav != B_NO_CAL) resp.add(auth_record(*this, p, meta.cal_root));
	std::vector<Tlv> payload{resp};
	if (behav == B_WITH_CONF) { ConfVals cv; cv.max_level = 19; cv.aggr_period = 400; cv.max_requests = 10; payload.push_back(conf_tlv(0x04, cv, false)); }
	if (behav == B_RESP_PLUS_ERROR) {
		if (ep.pdu_ver == 2) payload.push_back(Tlv::nest(0x03, {Tlv::u64(0x04, 0x0101), Tlv::str(0x05, "error next to a response")}));
		else { behav = B_HONEST; meta.behav = B_HONEST; }
	}
	if (behav == B_V1_REFLECT) {
		std::string spliced;
		if (v1_reflect(rq, ep, resp, spliced)) { meta.honest = false; return spliced; }
		behav = B_HONEST; meta.behav = B_HONEST;
	}
	std::string out = seal(ep, true, payload, behav, subseed);
	if (behav == B_TRUNCATED) {
		// keep the declared length but drop the tail: the next PDU's bytes will be swallowed into this frame
		out.resize(out.size() - 1 - rng.below(out.size() / 2));
	}
	meta.honest = (behav == B_HONEST || behav == B_WITH_CONF);
	return out;
}

std::string World::ext_reply(const ReqInfo &rq, const EndpointCfg &ep, int behav, uint64_t subseed, ReplyMeta &meta) {
	Rng rng(sim::mix(subseed, 0xe47));
	// behaviours that only make sense for aggregation chains are plain honest replies here
	if (behav == B_OTHER_HASH || behav == B_BROKEN_LINK || behav == B_LC_256 || behav == B_LC_2P32 || behav == B_LOW_LEVEL || behav == B_NO_CAL ||
	    behav == B_INDEX_GAP || behav == B_INDEX_SHORT || behav == B_INDEX_PREFIX || behav == B_INDEX_SHAPE || behav == B_METADATA_IMPRINT_LIKE || behav == B_LONG_IMPRINT || behav == B_LEGACY_ID_UNTERMINATED) behav = B_HONEST;
	if (behav == B_WRONG_PUB_TIME && !rq.has_pub_time) behav = B_HONEST; // any publication time answers a request that names none
	meta = ReplyMeta();
	meta.behav = behav;
	uint64_t id = rq.id;
	if (behav == B_FOREIGN_ID) id = rq.id + 0x1000 + rng.below(1000);
	if (behav == B_STALE_GEN) id = rq.id ^ (((uint64_t)1 + rng.below(200)) << 32);
	meta.id = id;
	if (behav == B_ERROR_PDU) return error_pdu(ep, 0x0101 + rng.below(3), "ref error pdu");
	if (behav == B_CONF_ONLY) { ConfVals cv; cv.max_requests = 50; cv.cal_first = 1400000000; cv.cal_last = head(); return conf_push(ep, cv); }
	if (behav == B_GARBAGE_PDU) return Tlv::nest(0x0777, {Tlv::str(0x01, "garbage")}).enc();
	Tlv resp = Tlv::nest(0x02, {Tlv::u64(0x01, id)});
	uint64_t t = rq.agg_time;
	uint64_t p = rq.has_pub_time ? rq.pub_time : head();
	bool impossible = !rq.has_agg_time || t > head() || p > head() || p < t || t == 0;
	static const uint64_t odd_status[] = {0x100000000ULL, 0xffffffff00000000ULL, 0x8000000000000000ULL, 0x0101, 0x0300, 0x200000000ULL};
	if (behav == B_STATUS_ERR || impossible) {
		static const uint64_t codes[] = {0x0101, 0x0102, 0x0103, 0x0104, 0x0105, 0x0106, 0x0107, 0x0200, 0x0201, 0x0300, 0x0301};
		resp.add(Tlv::u64(0x04, impossible ? 0x0104 : codes[rng.below(11)]));
		resp.add(Tlv::str(0x05, "ref status error"));
		meta.behav = B_STATUS_ERR;
		return seal(ep, true, {resp}, behav == B_STATUS_ERR ? B_HONEST : behav, subseed);
	}
	resp.add(Tlv::u64(0x04, behav == B_STATUS_CONTENT ? odd_status[rng.below(6)] : 0));
	resp.add(Tlv::u64(0x12, head()));
	uint64_t ct = t, cp = p;
	if (behav == B_WRONG_AGG_TIME) ct = t > 1 && rng.chance(1, 2) ? t - 1 : t + 1;
	if (behav == B_WRONG_PUB_TIME) cp = (p > t && rng.chance(1, 2)) ? p - 1 : p + 1;
	if (ct > cp) cp = ct;
	CalChain cc = cal.chain(ct, cp);
	if (behav == B_BAD_SHAPE && !cc.links.empty()) { size_t k = rng.below(cc.links.size()); cc.links[k].left = !cc.links[k].left; }
	if (behav == B_NO_AGG_TIME) {
		if (ct == cp) { behav = B_HONEST; meta.behav = B_HONEST; } // nothing is omitted in effect
		else cc.has_agg = false;
	}
	if (behav == B_PUB_SHIFTED_NO_AGG) { cc.has_agg = false; cc.pub = cp + 1 + rng.below(50); }
	if (behav == B_EXTRA_LINKS) {
		// still folds to some root and keeps input, times and (as a prefix) every genuine right link - only the shape betrays it
		int n = 1 + (int)rng.below(3);
		bool at_input = rng.chance(2, 3);
		for (int i = 0; i < n; i++) {
			Link l; l.left = at_input ? false : rng.chance(1, 2); l.sib = imprint(1, "surplus " + std::to_string(subseed) + "/" + std::to_string(i));
			if (at_input) cc.links.insert(cc.links.begin(), l); else cc.links.push_back(l);
		}
	}
	if (behav == B_OTHER_INPUT) cc.input = imprint(1, "other input " + std::to_string(subseed));
	if (behav == B_ALTERED_RIGHT_LINK && !cc.links.empty()) {
		std::vector<size_t> rights;
		for (size_t i = 0; i < cc.links.size(); i++) if (!cc.links[i].left) rights.push_back(i);
		size_t k = rights.empty() ? rng.below(cc.links.size()) : rights[rng.below(rights.size())];
		cc.links[k].sib = imprint(1, "altered " + std::to_string(subseed));
	}
	resp.add(cc.enc());
	meta.agg_time = ct; meta.pub_time = cp; meta.input_hash = cc.input; meta.cal_root = cc.fold();
	std::vector<Tlv> payload{resp};
	if (behav == B_WITH_CONF) { ConfVals cv; cv.max_requests = 10; cv.cal_first = 1400000000; cv.cal_last = head(); payload.push_back(conf_tlv(0x04, cv, true)); }
	if (behav == B_RESP_PLUS_ERROR) {
		if (ep.pdu_ver == 2) payload.push_back(Tlv::nest(0x03, {Tlv::u64(0x04, 0x0101), Tlv::str(0x05, "error next to a response")}));
		else { behav = B_HONEST; meta.behav = B_HONEST; }
	}
	if (behav == B_V1_REFLECT) {
		std::string spliced;
		if (v1_reflect(rq, ep, resp, spliced)) { meta.honest = false; return spliced; }
		behav = B_HONEST; meta.behav = B_HONEST;
	}
	std::string out = seal(ep, true, payload, behav, subseed);
	if (behav == B_TRUNCATED) out.resize(out.size() - 1 - rng.below(out.size() / 2));
	meta.honest = (behav == B_HONEST || behav == B_WITH_CONF);
	return out;
}

std::string World::conf_push(const EndpointCfg &ep, const ConfVals &cv) {
	return seal(ep, true, {conf_tlv(0x04, cv, ep.extender)}, B_HONEST, cv.max_level * 131 + cv.max_requests);
}

std::string World::error_pdu(const EndpointCfg &ep, uint64_t status, const std::string &msg) {
	Tlv e = Tlv::nest(0x03, {Tlv::u64(0x04, status), Tlv::str(0x05, msg)});
	return seal(ep, true, {e}, B_HONEST, status);
}

} // namespace ref
