#include "ref/ksi.h"
#include <openssl/evp.h>
#include <openssl/hmac.h>
#include <cstring>
#include <algorithm>

namespace ref {

static const EVP_MD *md_of(int alg) {
	switch (alg) {
		case 0: return EVP_sha1();
		case 1: return EVP_sha256();
		case 2: return EVP_ripemd160();
		case 4: return EVP_sha384();
		case 5: return EVP_sha512();
		default: return nullptr;
	}
}

int hash_len(int alg) {
	switch (alg) {
		case 0: return 20; case 1: return 32; case 2: return 20; case 4: return 48; case 5: return 64;
		case 7: return 28; case 8: return 32; case 9: return 48; case 10: return 64; case 11: return 32;
		default: return 0;
	}
}

std::string digest(int alg, const std::string &data) {
	const EVP_MD *md = md_of(alg);
	if (!md) return std::string();
	unsigned char out[EVP_MAX_MD_SIZE];
	unsigned len = 0;
	EVP_MD_CTX *c = EVP_MD_CTX_new();
	if (!EVP_DigestInit_ex(c, md, nullptr)) { EVP_MD_CTX_free(c); return std::string(); }
	EVP_DigestUpdate(c, data.data(), data.size());
	EVP_DigestFinal_ex(c, out, &len);
	EVP_MD_CTX_free(c);
	return std::string((char *)out, len);
}

std::string imprint(int alg, const std::string &data) {
	std::string d = digest(alg, data);
	if (d.empty()) return std::string();
	return std::string(1, (char)alg) + d;
}

std::string hmac_imprint(int alg, const std::string &key, const std::string &data) {
	const EVP_MD *md = md_of(alg);
	if (!md) return std::string();
	unsigned char out[EVP_MAX_MD_SIZE];
	unsigned len = 0;
	// OpenSSL refuses a NULL key pointer with length 0; use a dummy pointer for empty keys
	const char *k = key.empty() ? "" : key.data();
	if (!HMAC(md, k, (int)key.size(), (const unsigned char *)data.data(), data.size(), out, &len)) return std::string();
	return std::string(1, (char)alg) + std::string((char *)out, len);
}

Tlv Link::enc(bool calendar) const {
	unsigned tag = left ? 0x07 : 0x08;
	if (calendar) return Tlv::raw(tag, sib);
	Tlv t = Tlv::nest(tag, {});
	if (lc != 0) t.add(Tlv::u64(0x01, lc));
	if (kind == 0) t.add(Tlv::raw(0x02, sib));
	else if (kind == 1) t.add(Tlv::raw(0x03, sib));
	else t.add(Tlv::raw(0x04, sib));
	return t;
}

uint64_t AggChain::shape() const {
	uint64_t s = 1;
	for (size_t i = links.size(); i-- > 0;) s = (s << 1) | (links[i].left ? 1 : 0);
	return s;
}

Tlv AggChain::enc() const {
	Tlv t = Tlv::nest(0x0801, {});
	t.add(Tlv::u64(0x02, time));
	for (uint64_t i : index) t.add(Tlv::u64(0x03, i));
	t.add(Tlv::raw(0x05, input));
	t.add(Tlv::u64(0x06, (uint64_t)alg));
	for (auto &l : links) t.add(l.enc(false));
	return t;
}

bool fold_agg(const AggChain &c, int start_level, std::string &out, int &end_level) {
	std::string cur = c.input;
	int level = start_level;
	if (level < 0 || level > 255) return false;
	for (auto &l : c.links) {
		if (l.lc > 255) return false;
		uint64_t nl = (uint64_t)level + l.lc + 1;
		if (nl > 255) return false;
		level = (int)nl;
		std::string data = l.left ? cur + l.sib : l.sib + cur;
		data.push_back((char)level);
		cur = imprint(c.alg, data);
		if (cur.empty()) return false;
	}
	out = cur;
	end_level = level;
	return true;
}

Tlv CalChain::enc() const {
	Tlv t = Tlv::nest(0x0802, {});
	t.add(Tlv::u64(0x01, pub));
	if (has_agg) t.add(Tlv::u64(0x02, agg));
	t.add(Tlv::raw(0x05, input));
	for (auto &l : links) t.add(l.enc(true));
	return t;
}

std::string CalChain::fold() const {
	std::string cur = input;
	if (cur.empty()) return cur;
	int alg = (unsigned char)cur[0];
	for (auto &l : links) {
		if (l.left && !l.sib.empty()) alg = (unsigned char)l.sib[0];
		std::string data = l.left ? cur + l.sib : l.sib + cur;
		data.push_back((char)0xff);
		cur = imprint(alg, data);
		if (cur.empty()) return cur;
	}
	return cur;
}

uint64_t high_bit(uint64_t v) {
	uint64_t h = 1;
	if (v == 0) return 0;
	while ((h << 1) <= v && (h << 1) != 0) h <<= 1;
	return h;
}

bool CalChain::derive_time(uint64_t &t) const {
	if (links.empty()) return false;
	int64_t r = (int64_t)pub;
	uint64_t acc = 0;
	for (size_t i = links.size(); i-- > 0;) {
		if (r <= 0) return false;
		if (links[i].left) r = (int64_t)high_bit((uint64_t)r) - 1;
		else { acc += high_bit((uint64_t)r); r -= (int64_t)high_bit((uint64_t)r); }
	}
	if (r != 0) return false;
	t = acc;
	return true;
}

Calendar::Calendar() {
	dflt = imprint(1, "ksisim-empty-calendar-leaf");
	zero.push_back(dflt);
	for (int h = 1; h <= 64; h++) {
		std::string d = zero[h - 1] + zero[h - 1];
		d.push_back((char)0xff);
		zero.push_back(imprint(1, d));
	}
}

std::string Calendar::leaf(uint64_t t) const {
	auto it = leaves.find(t);
	return it == leaves.end() ? dflt : it->second;
}

bool Calendar::any(uint64_t lo, uint64_t hi) const {
	auto it = leaves.lower_bound(lo);
	return it != leaves.end() && it->first <= hi;
}

std::string Calendar::node(uint64_t lo, uint64_t r) const {
	if (r == 0) return leaf(lo);
	if (!any(lo, lo + r) && ((r + 1) & r) == 0) {
		int h = 0; uint64_t n = r + 1;
		while (n > 1) { n >>= 1; h++; }
		return zero[h];
	}
	uint64_t hb = high_bit(r);
	std::string l = node(lo, hb - 1), rr = node(lo + hb, r - hb);
	// algorithm rule of the format: the chain fold switches to the sibling's algorithm at a left link and otherwise keeps
	// the running one - either way a node is hashed with the algorithm of its right child
	std::string d = l + rr;
	d.push_back((char)0xff);
	return imprint((unsigned char)rr[0], d);
}

std::string Calendar::root(uint64_t p) const { return node(0, p); }

CalChain Calendar::chain(uint64_t t, uint64_t p) const {
	CalChain c;
	c.pub = p; c.agg = t; c.has_agg = true;
	c.input = leaf(t);
	std::vector<Link> down;
	uint64_t lo = 0, r = p;
	while (r != 0) {
		uint64_t hb = high_bit(r);
		Link l;
		if (t < lo + hb) { l.left = true; l.sib = node(lo + hb, r - hb); r = hb - 1; }
		else { l.left = false; l.sib = node(lo, hb - 1); lo += hb; r -= hb; }
		down.push_back(l);
	}
	std::reverse(down.begin(), down.end());
	c.links = down;
	return c;
}

std::string legacy_id(const std::string &name) {
	std::string n = name.substr(0, 25);
	std::string s(29, '\0');
	s[0] = 0x03; s[1] = 0x00; s[2] = (char)n.size();
	memcpy(&s[3], n.data(), n.size());
	return s;
}

std::string metadata_payload(const std::string &client_id, bool padded) {
	Tlv cid = Tlv::str(0x01, client_id);
	std::string body = cid.enc();
	if (!padded) return body;
	// padding TLV 0x1e (non-critical, forward) of 0x01 bytes, chosen so that the total length is even
	Tlv pad = Tlv::raw(0x1e, (body.size() % 2 == 0) ? std::string("\x01\x01", 2) : std::string("\x01", 1));
	pad.nc = true; pad.fwd = true;
	return pad.enc() + body;
}

std::string metadata_payload_full(const std::string &client_id, const std::string &machine_id, int64_t seq, int64_t req_time) {
	std::string body = Tlv::str(0x01, client_id).enc();
	if (!machine_id.empty()) body += Tlv::str(0x02, machine_id).enc();
	if (seq >= 0) body += Tlv::u64(0x03, (uint64_t)seq).enc();
	if (req_time >= 0) body += Tlv::u64(0x04, (uint64_t)req_time).enc();
	Tlv pad = Tlv::raw(0x1e, (body.size() % 2 == 0) ? std::string("\x01\x01", 2) : std::string("\x01", 1));
	pad.nc = true; pad.fwd = true;
	return pad.enc() + body;
}

bool parse_agg_chain(const Tlv &tin, AggChain &c, bool partial) {
	Tlv t = tin;
	if (!t.expand()) return false;
	c = AggChain();
	bool got_time = false, got_in = false, got_alg = false;
	for (auto &k : t.kids) {
		uint64_t v;
		switch (k.tag) {
			case 0x02: if (!k.as_u64(v)) return false; c.time = v; got_time = true; break;
			case 0x03: if (!k.as_u64(v)) return false; c.index.push_back(v); break;
			case 0x04: break;
			case 0x05: c.input = k.val; got_in = true; break;
			case 0x06: if (!k.as_u64(v)) return false; c.alg = (int)v; got_alg = true; break;
			case 0x07: case 0x08: {
				Tlv lk = k;
				if (!lk.expand()) return false;
				Link l; l.left = k.tag == 0x07;
				bool have = false;
				for (auto &e : lk.kids) {
					if (e.tag == 0x01) { if (!e.as_u64(v)) return false; l.lc = v; }
					else if (e.tag == 0x02) { l.kind = 0; l.sib = e.val; have = true; }
					else if (e.tag == 0x03) { l.kind = 1; l.sib = e.val; have = true; }
					else if (e.tag == 0x04) { l.kind = 2; l.sib = e.val; have = true; }
				}
				if (!have) return false;
				c.links.push_back(l);
				break;
			}
			default: break;
		}
	}
	if (partial) return got_in && got_alg; // a chain as extracted from a tree builder: no time / index yet, possibly no link
	return got_time && got_in && got_alg && !c.links.empty();
}

bool parse_cal_chain(const Tlv &tin, CalChain &c) {
	Tlv t = tin;
	if (!t.expand()) return false;
	c = CalChain();
	c.has_agg = false;
	bool got_pub = false, got_in = false;
	for (auto &k : t.kids) {
		uint64_t v;
		switch (k.tag) {
			case 0x01: if (!k.as_u64(v)) return false; c.pub = v; got_pub = true; break;
			case 0x02: if (!k.as_u64(v)) return false; c.agg = v; c.has_agg = true; break;
			case 0x05: c.input = k.val; got_in = true; break;
			case 0x07: case 0x08: { Link l; l.left = k.tag == 0x07; l.sib = k.val; c.links.push_back(l); break; }
			default: break;
		}
	}
	if (!c.has_agg) c.agg = c.pub;
	return got_pub && got_in && !c.links.empty();
}

bool parse_signature(const std::string &bytes, SigView &v) {
	v = SigView();
	Tlv top; size_t used;
	if (!Tlv::parse1(bytes, 0, top, used) || used != bytes.size() || top.tag != 0x0800) return false;
	if (!top.expand()) return false;
	for (auto &k : top.kids) {
		if (k.tag == 0x0801) {
			AggChain c;
			if (!parse_agg_chain(k, c)) return false;
			v.agg.push_back(c);
			v.agg_raw.push_back(k.enc());
		} else if (k.tag == 0x0802) {
			if (!parse_cal_chain(k, v.cal)) return false;
			v.has_cal = true;
			v.cal_raw = k.enc();
		} else if (k.tag == 0x0803) {
			Tlv p = k;
			if (!p.expand()) return false;
			Tlv *pd = p.find(0x10);
			if (!pd || !pd->expand()) return false;
			const Tlv *tt = pd->find(0x02), *hh = pd->find(0x04);
			if (!tt || !hh) return false;
			v.has_pub = true; v.pub_time = tt->u64_or(0); v.pub_hash = hh->val;
			v.pub_raw = k.enc();
		} else if (k.tag == 0x0805) {
			Tlv p = k;
			if (!p.expand()) return false;
			Tlv *pd = p.find(0x10);
			if (!pd) return false;
			v.auth_signed_bytes = pd->enc();
			if (!pd->expand()) return false;
			const Tlv *tt = pd->find(0x02), *hh = pd->find(0x04);
			if (!tt || !hh) return false;
			v.has_auth = true; v.auth_time = tt->u64_or(0); v.auth_hash = hh->val;
			Tlv *sd = p.find(0x0b);
			if (sd && sd->expand()) {
				if (const Tlv *s = sd->find(0x02)) v.auth_sig = s->val;
				if (const Tlv *ci = sd->find(0x03)) v.auth_certid = ci->val;
			}
			v.auth_raw = k.enc();
		} else if (k.tag == 0x0806) {
			v.has_rfc3161 = true;
		}
	}
	// order the aggregation chains by decreasing index length (lowest chain first), as the SDK does
	std::vector<size_t> ord(v.agg.size());
	for (size_t i = 0; i < ord.size(); i++) ord[i] = i;
	std::stable_sort(ord.begin(), ord.end(), [&](size_t a, size_t b) { return v.agg[a].index.size() > v.agg[b].index.size(); });
	std::vector<AggChain> a2; std::vector<std::string> r2;
	for (size_t i : ord) { a2.push_back(v.agg[i]); r2.push_back(v.agg_raw[i]); }
	v.agg = a2; v.agg_raw = r2;
	v.ok = !v.agg.empty();
	return v.ok;
}

SigFacts evaluate(const SigView &v) {
	SigFacts f;
	if (!v.ok || v.agg.empty()) { f.why = "unparsable"; return f; }
	f.input_hash = v.agg[0].input;
	f.first_lc = v.agg[0].links[0].lc;
	f.agg_time = v.agg[0].time;
	std::string cur; int level = 0;
	bool ok = true;
	for (size_t i = 0; i < v.agg.size(); i++) {
		const AggChain &c = v.agg[i];
		if (i > 0 && c.input != cur) { ok = false; f.why = "chain input != previous output"; }
		if (c.time != f.agg_time) { ok = false; f.why = "aggregation times differ"; }
		if (c.index.empty() || c.index.back() != c.shape()) { ok = false; f.why = "index/shape"; }
		if (i > 0) {
			const AggChain &p = v.agg[i - 1];
			if (p.index.size() != c.index.size() + 1 || !std::equal(c.index.begin(), c.index.end(), p.index.begin())) { ok = false; f.why = "index continuation"; }
		}
		// legacy ids: 29 octets, 03 00 len name, zero from the end of the name on
		for (auto &l : c.links) if (l.kind == 1) {
			const std::string &x = l.sib;
			bool okid = x.size() == 29 && x[0] == 0x03 && x[1] == 0x00 && (unsigned char)x[2] <= 25;
			if (okid) for (size_t k = 3 + (unsigned char)x[2]; k < 29; k++) if (x[k] != 0) okid = false;
			if (!okid) { ok = false; f.why = "legacy id"; }
		}
		// imprints have the length of their algorithm's digest
		for (auto &l : c.links) if (l.kind == 0 && (l.sib.empty() || hash_len((unsigned char)l.sib[0]) == 0 || (size_t)hash_len((unsigned char)l.sib[0]) + 1 != l.sib.size())) { ok = false; f.why = "imprint length"; }
		if (c.input.empty() || hash_len((unsigned char)c.input[0]) == 0 || (size_t)hash_len((unsigned char)c.input[0]) + 1 != c.input.size()) { ok = false; f.why = "imprint length"; }
		// metadata records (INT-11): a padding element comes first, is a TLV8 with the N and F flags and the value 01 or 01 01, and
		// makes the record's length even; a record without padding must not have the length and first octet of an imprint
		for (auto &l : c.links) if (l.kind == 2) {
			const std::string &m = l.sib;
			std::vector<Tlv> els;
			bool seq = Tlv::parse_all(m, els);
			bool has_pad = false;
			if (seq) for (auto &e : els) if (e.tag == 0x1e) has_pad = true;
			if (has_pad) {
				const Tlv &p0 = els[0];
				bool tlv8 = !m.empty() && !((unsigned char)m[0] & 0x80);
				if (p0.tag != 0x1e || !tlv8 || !p0.nc || !p0.fwd || !(p0.val == std::string("\x01", 1) || p0.val == std::string("\x01\x01", 2)) || m.size() % 2) { ok = false; f.why = "metadata padding"; }
			} else if (!m.empty() && hash_len((unsigned char)m[0]) != 0 && (size_t)hash_len((unsigned char)m[0]) + 1 == m.size()) { ok = false; f.why = "metadata could be read as an imprint"; }
		}
		std::string out; int el;
		if (!fold_agg(c, level, out, el)) { f.why = "level out of range"; return f; }
		cur = out; level = el;
	}
	f.agg_root = cur; f.agg_root_level = level;
	if (v.has_cal) {
		if (v.cal.input != cur) { ok = false; f.why = "calendar input != aggregation root"; }
		if (v.cal.agg != f.agg_time) { ok = false; f.why = "calendar aggregation time"; }
		uint64_t dt;
		if (!v.cal.derive_time(dt) || dt != v.cal.agg) { ok = false; f.why = "calendar shape/time"; }
		f.cal_root = v.cal.fold();
		f.cal_pub_time = v.cal.pub;
		if (v.has_pub && (v.pub_time != v.cal.pub || v.pub_hash != f.cal_root)) { ok = false; f.why = "publication record"; }
		if (v.has_auth && (v.auth_time != v.cal.pub || v.auth_hash != f.cal_root)) { ok = false; f.why = "auth record"; }
	} else if (v.has_pub || v.has_auth) { ok = false; f.why = "record without calendar"; }
	f.consistent = ok;
	return f;
}

} // namespace ref
